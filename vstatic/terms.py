"""E4 term algebra: Laurent polynomials with Fraction coefficients over hashable atoms.

Every abstract value is a Term.  Non-numeric values (strings, None, tuples, objects,
opaque calls) are Terms made of one atom with coefficient 1.  Division by a single
monomial is exact (negative exponents); division by a sum turns the (content-
normalised) sum into an atom with exponent -1.  Nothing here evaluates floating
point: numbers are exact Fractions, irrational constants are atoms.
"""
from fractions import Fraction
import math

F = Fraction


def _k(a):
    if isinstance(a, (Atom, Term)):
        return a.key
    if isinstance(a, tuple):
        return '<' + ','.join(_k(x) for x in a) + '>'
    if isinstance(a, Fraction):
        return str(a)
    return repr(a)


class Atom:
    __slots__ = ('kind', 'args', 'key', '_h')

    def __init__(self, kind, *args):
        self.kind = kind
        self.args = args
        self.key = kind + '(' + ','.join(_k(a) for a in args) + ')'
        self._h = hash(self.key)

    def __hash__(self):
        return self._h

    def __eq__(self, o):
        return isinstance(o, Atom) and o.key == self.key

    def __lt__(self, o):
        return self.key < o.key

    def __repr__(self):
        return self.key


class Term:
    __slots__ = ('p', '_key')

    def __init__(self, p=None):
        self.p = {m: c for m, c in (p or {}).items() if c != 0}
        self._key = None

    # ---- constructors
    @staticmethod
    def num(c):
        c = F(c)
        return Term({(): c}) if c != 0 else Term()

    @staticmethod
    def of(atom, exp=1):
        return Term({((atom, F(exp)),): F(1)})

    @property
    def key(self):
        if self._key is None:
            items = sorted((_mkey(m), c) for m, c in self.p.items())
            self._key = '[' + ' + '.join(f'{c}*{mk}' if mk else str(c) for mk, c in items) + ']'
        return self._key

    def __hash__(self):
        return hash(self.key)

    def __eq__(self, o):
        return isinstance(o, Term) and o.key == self.key

    def __repr__(self):
        return pretty(self)

    # ---- predicates
    def is_zero(self):
        return not self.p

    def const(self):
        """Fraction if the term is a pure number, else None."""
        if not self.p:
            return F(0)
        if len(self.p) == 1 and () in self.p:
            return self.p[()]
        return None

    def single_atom(self):
        """Atom if the term is exactly 1*atom^1, else None."""
        if len(self.p) == 1:
            (m, c), = self.p.items()
            if c == 1 and len(m) == 1 and m[0][1] == 1:
                return m[0][0]
        return None

    def monomial(self):
        """(coeff, mono) if single monomial."""
        if len(self.p) == 1:
            (m, c), = self.p.items()
            return c, m
        if not self.p:
            return F(0), ()
        return None

    def atoms(self):
        s = set()
        for m in self.p:
            for a, _ in m:
                s.add(a)
        return s

    # ---- arithmetic
    def __add__(self, o):
        o = lift(o)
        p = dict(self.p)
        for m, c in o.p.items():
            p[m] = p.get(m, 0) + c
        return Term(p)

    __radd__ = __add__

    def __neg__(self):
        return Term({m: -c for m, c in self.p.items()})

    def __sub__(self, o):
        return self + (-lift(o))

    def __rsub__(self, o):
        return lift(o) - self

    def __mul__(self, o):
        o = lift(o)
        p = {}
        for m1, c1 in self.p.items():
            for m2, c2 in o.p.items():
                m = _mmul(m1, m2)
                p[m] = p.get(m, 0) + c1 * c2
        return Term(p)

    __rmul__ = __mul__

    def inv(self):
        mono = self.monomial()
        if mono is not None:
            c, m = mono
            if c == 0:
                return Term.of(Atom('div0'))
            return Term({tuple((a, -e) for a, e in m): 1 / c})
        # content-normalise: divide by the coefficient of the smallest monomial
        lead = min(self.p.items(), key=lambda mc: _mkey(mc[0]))[1]
        norm = Term({m: c / lead for m, c in self.p.items()})
        return Term({((Atom('poly', norm), F(-1)),): 1 / lead})

    def __truediv__(self, o):
        return self * lift(o).inv()

    def __rtruediv__(self, o):
        return lift(o) * self.inv()

    def pow(self, e):
        e = F(e)
        if e == 0:
            return Term.num(1)
        if e.denominator == 1 and e > 0 and len(self.p) > 1:
            if e > 8:
                return Term.of(Atom('pow', self, e))
            r = Term.num(1)
            for _ in range(int(e)):
                r = r * self
            return r
        if e.denominator == 1 and e < 0 and len(self.p) > 1:
            return self.pow(-e).inv()
        mono = self.monomial()
        if mono is not None:
            c, m = mono
            if c == 0:
                return Term.num(0)
            cm = _cpow(c, e)
            if cm is not None:
                return cm * Term({tuple((a, x * e) for a, x in m): F(1)})
        # generic: atomise the base
        lead = min(self.p.items(), key=lambda mc: _mkey(mc[0]))[1]
        if lead > 0:
            norm = Term({m: c / lead for m, c in self.p.items()})
            cm = _cpow(lead, e)
            if cm is not None:
                return cm * Term({((Atom('poly', norm), e),): F(1)})
        return Term.of(Atom('pow', self, e))


def _cpow(c, e):
    """c**e for rational c, rational e, as a Term (using num-atoms for irrational roots)."""
    if e.denominator == 1:
        return Term.num(c ** int(e))
    if c < 0:
        return None
    # c^(p/q): try exact root
    n, d = c.numerator, c.denominator
    q = e.denominator
    rn, rd = _iroot(n, q), _iroot(d, q)
    if rn is not None and rd is not None:
        return Term.num(F(rn, rd) ** e.numerator)
    if c == 1:
        return Term.num(1)
    return Term({((Atom('num', c), e),): F(1)})


def _iroot(n, q):
    if n < 0:
        return None
    r = round(n ** (1.0 / q))
    for x in (r - 1, r, r + 1):
        if x >= 0 and x ** q == n:
            return x
    return None


def _mmul(m1, m2):
    if not m1:
        return m2
    if not m2:
        return m1
    d = {}
    for a, e in m1:
        d[a] = d.get(a, 0) + e
    for a, e in m2:
        d[a] = d.get(a, 0) + e
    # num-atoms with integer exponents fold back into coefficient? keep simple: leave
    return tuple(sorted(((a, e) for a, e in d.items() if e != 0), key=lambda ae: ae[0].key))


def _mkey(m):
    return '*'.join(f'{a.key}^{e}' if e != 1 else a.key for a, e in m)


def lift(x):
    if isinstance(x, Term):
        return x
    if isinstance(x, Atom):
        return Term.of(x)
    if isinstance(x, bool):
        return Term.of(Atom('bool', x))
    if isinstance(x, (int, Fraction)):
        return Term.num(x)
    if isinstance(x, float):
        return Term.num(F(repr(x)))
    if isinstance(x, str):
        return Term.of(Atom('str', x))
    if x is None:
        return NONE
    if isinstance(x, tuple):
        return Term.of(Atom('tuple', *[lift(i) for i in x]))
    raise TypeError(f'cannot lift {x!r}')


NONE = Term.of(Atom('none'))
TRUE = Term.of(Atom('bool', True))
FALSE = Term.of(Atom('bool', False))
TRUE_ATOM_KEY = TRUE.single_atom().key
FALSE_ATOM_KEY = FALSE.single_atom().key


def sym(name):
    return Term.of(Atom('sym', name))


def pretty(t, depth=0):
    if not isinstance(t, Term):
        return _patom(t, depth) if isinstance(t, Atom) else repr(t)
    if not t.p:
        return '0'
    parts = []
    for m, c in sorted(t.p.items(), key=lambda mc: _mkey(mc[0])):
        fs = []
        for a, e in m:
            s = _patom(a, depth + 1)
            fs.append(s if e == 1 else f'{s}**{e}' if e.denominator == 1 else f'{s}**({e})')
        if not fs:
            parts.append(str(c))
        elif c == 1:
            parts.append('*'.join(fs))
        elif c == -1:
            parts.append('-' + '*'.join(fs))
        else:
            parts.append(f'{c}*' + '*'.join(fs))
    s = ' + '.join(parts).replace('+ -', '- ')
    return s if len(parts) == 1 or depth == 0 else f'({s})'


def _patom(a, depth=0):
    if depth > 12:
        return '…'
    k = a.kind
    if k == 'sym':
        return a.args[0]
    if k == 'str':
        return repr(a.args[0])
    if k == 'none':
        return 'None'
    if k == 'bool':
        return str(a.args[0])
    if k == 'num':
        return f'<{a.args[0]}>'
    if k == 'poly':
        return '(' + pretty(a.args[0], 0) + ')'
    if k == 'call':
        fn, args, kw = a.args
        ps = [pretty(x, depth + 1) for x in args] + [f'{n}={pretty(v, depth + 1)}' for n, v in kw]
        return f"{fn}({', '.join(ps)})"
    if k == 'ite':
        c, x, y = a.args
        return f'Ite({pretty(c, depth + 1)}, {pretty(x, depth + 1)}, {pretty(y, depth + 1)})'
    if k == 'cmp':
        op, x, y = a.args
        return f'({pretty(x, depth + 1)} {op} {pretty(y, depth + 1)})'
    if k == 'sub':
        return f'{pretty(a.args[0], depth + 1)}[{pretty(a.args[1], depth + 1)}]'
    if k == 'attr':
        return f'{pretty(a.args[0], depth + 1)}.{a.args[1]}'
    if k in ('tuple', 'list'):
        b = '()' if k == 'tuple' else '[]'
        return b[0] + ', '.join(pretty(x, depth + 1) for x in a.args) + b[1]
    if k == 'slice':
        return ':'.join('' if _isnone(x) else pretty(x, depth + 1) for x in a.args)
    if k == 'store':
        return f'Store({pretty(a.args[0], depth + 1)}, {pretty(a.args[1], depth + 1)} := {pretty(a.args[2], depth + 1)})'
    if k == 'not':
        return f'not {pretty(a.args[0], depth + 1)}'
    if k in ('and', 'or'):
        return '(' + f' {k} '.join(pretty(x, depth + 1) for x in a.args) + ')'
    if k in ('loopvar', 'after') and len(a.args) == 2 and (a.args[0], a.args[1]) in LOOPVAR_LABELS:
        return f"{k}({LOOPVAR_LABELS[(a.args[0], a.args[1])]!r}, {a.args[1]!r})"
    return k + '(' + ', '.join(pretty(x, depth + 1) if isinstance(x, (Term, Atom)) else repr(x) for x in a.args) + ')'


def _isnone(t):
    return isinstance(t, Term) and t.key == NONE.key


# ---------------------------------------------------------------------------
# structured constructors with normalisation
# ---------------------------------------------------------------------------

POSITIVE = set()      # atom keys assumed > 0 (filled by sva from the sign-assumption table)
NONNEG = set()
INTEGER = set()       # atom keys assumed integer valued
# counts that setigen keeps as Python ints (frame dimensions, filterbank / recording sizes) and package functions returning
# integer channel indices -- the same domain facts as GE0_PATTERNS uses for their signs
INTEGER_ATTRS = {'fchans', 'tchans', 'num_taps', 'num_branches', 'num_pols', 'num_bits', 'num_chans', 'num_antennas',
                 'num_blocks', 'num_subblocks', 'blocks_per_file', 'block_size', 'samples_per_block', 'max_delay', 'start_chan'}
INTEGER_CALLS = {'frame.Frame.get_index'}


def is_positive(t):
    if not t.p:
        return False
    for m, c in t.p.items():
        if c <= 0:
            return False
        for a, e in m:
            if not _atom_pos(a):
                return False
    return True


def _atom_pos(a):
    if a.key in POSITIVE or a.kind == 'num':
        return True
    if a.kind == 'call' and a.args[0] in ('abs', 'sqrt', 'exp') and a.args[0] != 'abs':
        return True
    if a.kind == 'poly':
        return is_positive(a.args[0])
    return False


def is_nonneg(t):
    if not t.p:
        return True
    for m, c in t.p.items():
        if c < 0:
            return False
        for a, e in m:
            if _atom_pos(a) or a.key in NONNEG:
                continue
            if a.kind == 'call' and a.args[0] in ('abs', 'len', 'sqrt'):
                continue
            if a.kind == 'call' and a.args[0] in ('round', 'floor', 'ceil', 'trunc') and a.args[1] and is_nonneg(a.args[1][0]):
                continue
            if a.kind == 'call' and a.args[0] in ('min', 'minimum') and a.args[1] and all(is_nonneg(x) for x in a.args[1]):
                continue
            if a.kind == 'call' and a.args[0] in ('max', 'maximum') and any(is_nonneg(x) for x in a.args[1]):
                continue
            if a.kind == 'call' and a.args[0] in ('floordiv', 'mod') and len(a.args[1]) == 2 and is_positive(a.args[1][1]) \
                    and (a.args[0] == 'mod' or is_nonneg(a.args[1][0])):
                continue
            if a.kind == 'sub' and a.args[0].single_atom() is not None and a.args[0].single_atom().kind == 'call' \
                    and a.args[0].single_atom().args[0] == 'shape':
                continue
            if a.kind == 'idx':
                continue
            if a.kind == 'ite' and is_nonneg(a.args[1]) and is_nonneg(a.args[2]):
                continue
            if e.denominator == 1 and e % 2 == 0:
                continue
            return False
    return True


ASSUMED_GE0 = []      # terms known to be >= 0 in the case under analysis (pushed by compare while it explores a case)


def _frame_dims_positive(t):
    """a frame's data array has at least one row and one column:  shape(<x>.data)[k] - 1 >= 0"""
    r = t + Term.num(1)
    a = r.single_atom()
    if a is not None and a.kind == 'sub' and a.args[1].const() in (0, 1):
        ba = a.args[0].single_atom()
        if ba is not None and ba.kind == 'call' and ba.args[0] == 'shape' and len(ba.args[1]) == 1:
            xa = ba.args[1][0].single_atom()
            return xa is not None and xa.kind == 'attr' and xa.args[1] == 'data'
    return False


GE0_PATTERNS = [_frame_dims_positive]      # predicates t -> bool: domain facts "t >= 0" (rules may add class invariants)


def ge0(t, depth=0):
    """t >= 0 under the sign table and the assumptions of the current case; also decides  r - max(..) and r + min(..)"""
    if is_nonneg(t):
        return True
    if depth > 3:
        return False
    r1 = t + Term.num(1)
    a1 = r1.single_atom()
    if a1 is not None and a1.kind == 'attr' and a1.args[1] in ('fchans', 'tchans', 'num_chans', 'num_branches', 'num_taps'):
        return True            # a count of channels / samples is a positive integer: n - 1 >= 0
    for pred in GE0_PATTERNS:
        try:
            if pred(t):
                return True
        except Exception:
            pass
    for d in ASSUMED_GE0:
        if is_nonneg(t - d):
            return True
    for m, c in t.p.items():
        if len(m) == 1 and m[0][1] == 1 and m[0][0].kind == 'call' and m[0][0].args[0] in ('min', 'max') and not m[0][0].args[2]:
            a = m[0][0]
            rest = t - Term({m: c})
            if abs(c) != 1:
                continue
            alts = [rest + (x if c == 1 else -x) for x in a.args[1]]
            need_all = (a.args[0] == 'max' and c == -1) or (a.args[0] == 'min' and c == 1)
            if (all if need_all else any)(ge0(x, depth + 1) for x in alts):
                return True
    return False


_NO_RATIO = [False]
EXACT_RATIOS = []      # quotients a rule may assume to be whole numbers (a stated precondition of the property, e.g. a valid
                       # GUPPI RAW block holds a whole number of samples per channel): q * <integer> is then an integer


def is_integer(t):
    if EXACT_RATIOS and t.p and not _NO_RATIO[0]:
        _NO_RATIO[0] = True
        try:
            for r_ in EXACT_RATIOS:
                if t.key == r_.key or is_integer(t / r_):
                    return True
        finally:
            _NO_RATIO[0] = False
    for m, c in t.p.items():
        if c.denominator != 1:
            return False
        for a, e in m:
            if e.denominator != 1 or e < 0:
                return False
            if a.key in INTEGER:
                continue
            if a.kind == 'call' and a.args[0] in ('round', 'floor', 'ceil', 'trunc', 'len', 'floordiv', 'mod', 'size'):
                continue
            if a.kind == 'call' and a.args[0] in INTEGER_CALLS:
                continue
            if a.kind == 'call' and a.args[0] in ('min', 'max') and a.args[1] and not a.args[2] and \
                    all(isinstance(x, Term) and is_integer(x) for x in a.args[1]):
                continue
            if a.kind == 'call' and a.args[0] == 'astype' and len(a.args[2]) == 1 and a.args[2][0][0] == 'dtype' and \
                    a.args[2][0][1].single_atom() is not None and a.args[2][0][1].single_atom().kind in ('builtin', 'ext') and \
                    'int' in str(a.args[2][0][1].single_atom().args[0]):
                continue
            if a.kind == 'attr' and a.args[1] in INTEGER_ATTRS:
                continue
            if a.kind == 'ite' and is_integer(a.args[1]) and is_integer(a.args[2]):
                continue
            return False
    return True


def leading_sign(t):
    """Sign (+1/-1) of the coefficient of the key-smallest monomial; 0 for zero."""
    if not t.p:
        return 0
    lead = min(t.p.items(), key=lambda mc: _mkey(mc[0]))[1]
    return 1 if lead > 0 else -1


CMP_NEG = {'<': '>=', '>=': '<', '>': '<=', '<=': '>', '==': '!=', '!=': '==',
           'in': 'not in', 'not in': 'in', 'is': 'is not', 'is not': 'is'}
CMP_SWAP = {'<': '>', '>': '<', '<=': '>=', '>=': '<=', '==': '==', '!=': '!='}


def mk_cmp(op, a, b):
    """Canonical comparison condition.  Returns (Term cond, polarity) folded into a Term:
    conditions are kept in a canonical orientation so that `a < b`, `b > a`, `not a >= b`
    have the same key.  Negative polarity is expressed with a 'not' atom."""
    a, b = lift(a), lift(b)
    if op in ('<', '<=', '>', '>=', '==', '!='):
        # truth values inside arithmetic (the difference of two booleans compared with 0) are the numbers 1 and 0
        def num_(t):
            if t.single_atom() is not None or not any(x.key in (TRUE_ATOM_KEY, FALSE_ATOM_KEY) for m in t.p for x, _ in m):
                return t
            out = Term()
            for m, c in t.p.items():
                if any(x.key == FALSE_ATOM_KEY for x, _ in m):
                    continue
                out = out + Term({tuple((x, e) for x, e in m if x.key != TRUE_ATOM_KEY): c})
            return out
        a, b = num_(a), num_(b)
        if b.const() is not None and a.key in (TRUE.key, FALSE.key):
            a = Term.num(1 if a.key == TRUE.key else 0)
        if a.const() is not None and b.key in (TRUE.key, FALSE.key):
            b = Term.num(1 if b.key == TRUE.key else 0)
    ca, cb = a.const(), b.const()
    if ca is not None and cb is not None and op in ('<', '<=', '>', '>=', '==', '!='):
        r = {'<': ca < cb, '<=': ca <= cb, '>': ca > cb, '>=': ca >= cb, '==': ca == cb, '!=': ca != cb}[op]
        return TRUE if r else FALSE
    sa_, sb_ = a.single_atom(), b.single_atom()
    if op in ('==', '!=') and sa_ is not None and sb_ is not None and sa_.kind == 'str' and sb_.kind == 'str':
        r = sa_.args[0] == sb_.args[0]
        return (TRUE if r else FALSE) if op == '==' else (FALSE if r else TRUE)
    if op in ('==', '!=') and ((sa_ is not None and sa_.kind == 'str' and b.const() is not None) or
                               (sb_ is not None and sb_.kind == 'str' and a.const() is not None)):
        return FALSE if op == '==' else TRUE          # a string never equals a number
    if op in ('==', '!=') and a.key == b.key:
        return TRUE if op == '==' else FALSE
    if op in ('==', '!=', 'is', 'is not') and a.key in (TRUE.key, FALSE.key) and b.key in (TRUE.key, FALSE.key):
        # two truth values (a != b of booleans is their exclusive or): different keys here
        return FALSE if op in ('==', 'is') else TRUE
    if op in ('==', '!=') and (a.key in (TRUE.key, FALSE.key) or b.key in (TRUE.key, FALSE.key)) and (_boolean(a) and _boolean(b)):
        # p == True is p, p == False is not p, for a proposition p
        p_, c_ = (a, b) if b.key in (TRUE.key, FALSE.key) else (b, a)
        same = (c_.key == TRUE.key) == (op == '==')
        return p_ if same else mk_not(p_)
    if op in ('is', 'is not'):
        # identity with None of a known non-None constant
        if a.key == b.key:
            return TRUE if op == 'is' else FALSE
    if op in ('==', '!=', 'is', 'is not'):
        for x, y in ((a, b), (b, a)):
            if _isnone(y) and _known_not_none(x):
                return FALSE if op in ('==', 'is') else TRUE
    neg = False
    if op in ('>', '>='):           # a > b  ==  b < a
        a, b, op = b, a, CMP_SWAP[op]
    if op == '<=':                  # a <= b == not (b < a)
        a, b, op, neg = b, a, '<', True
    if op in ('!=', 'not in', 'is not'):
        op, neg = CMP_NEG[op], True
    if op == '<':
        # move everything to one side for numeric comparisons: (a - b) < 0, canonical sign
        d = a - b
        if _numeric_like(a) and _numeric_like(b):
            c = d.const()
            if c is not None:
                r = c < 0
                return (FALSE if r else TRUE) if neg else (TRUE if r else FALSE)
            if is_positive(d):
                return TRUE if neg else FALSE
            if is_positive(-d):
                return FALSE if neg else TRUE
            if is_nonneg(d) or ge0(d):
                return TRUE if neg else FALSE         # d >= 0 always: d < 0 never holds
            if is_integer(d) and d.p.get((), 0) == -1 and len(d.p) > 1:
                # integers:  p - 1 < 0  <=>  p <= 0  <=>  not (-p < 0)   (one spelling for `n < 1` and `not n > 0`)
                r = mk_cmp('<', -(d + Term.num(1)), Term.num(0))
                return r if neg else mk_not(r)
            if is_nonneg(-d) and is_integer(d):
                # d <= 0 always (e.g. -len(x)):  d < 0  <=>  d != 0
                r = mk_not(mk_cmp('==', -d, Term.num(0)))
                return mk_not(r) if neg else r
            a, b = d, Term.num(0)
    if op == '==':
        if _numeric_like(a) and _numeric_like(b):
            d = a - b
            c = d.const()
            if c is not None:
                r = (c == 0)
                return (FALSE if r else TRUE) if neg else (TRUE if r else FALSE)
            if leading_sign(d) < 0:
                d = -d
            a, b = d, Term.num(0)
        elif a.key > b.key:
            a, b = b, a
    t = Term.of(Atom('cmp', op, a, b))
    return mk_not(t) if neg else t


NOTNONE = set()       # symbol names assumed not None
LOOPVAR_LABELS = {}    # canonical loop-carried id -> readable local name (reports only)
SYMKIND = {}          # symbol name -> 'callable' | 'array' | 'scalar' (input-form case analysis)


NOTNONE_KEYS = set()      # keys of terms shown not to be None (items of tuples returned by package functions)
NOTNONE_ITEMS = set()     # (package function, k): the k-th item of the tuple it returns is never None


def _known_not_none(x):
    if x.const() is not None:
        return True
    if x.key in NOTNONE_KEYS:
        return True
    at = x.single_atom()
    if at is None:
        return not _isnone(x)      # arithmetic combination
    if at.kind == 'sym':
        # (a parameter a rule states to be a positive number / an integer is a number: not None)
        return at.args[0] in NOTNONE or at.args[0] in POSITIVE or at.args[0] in INTEGER
    if at.kind == 'call' and (at.args[0] in NUMERIC_RESULT or at.args[0] in NOTNONE_CALLS):
        return True            # numpy constructors / elementwise functions return arrays or numbers, never None
    if at.kind == 'sub':
        ba = at.args[0].single_atom()
        kc = at.args[1].const()
        if ba is not None and ba.kind == 'call' and kc is not None and (str(ba.args[0]), int(kc)) in NOTNONE_ITEMS:
            return True
        if ba is not None and ba.kind == 'call' and ba.args[0] in NUMERIC_RESULT:
            return True        # an item / slice of such a result
        if ba is None and at.args[0].const() is None:
            return True        # an item of an arithmetic result (a numeric array)
        if ba is not None and ba.kind == 'sub':
            return _known_not_none(at.args[0])
        if ba is not None and ba.kind == 'sym' and SYMKIND.get(ba.args[0]) == 'array':
            return True        # an item of a numeric input array
    return at.kind in ('str', 'tuple', 'list', 'dict', 'closure', 'new', 'bool', 'seq', 'func', 'class')


LIST_ATTRS = set()         # attribute names that always hold a list (model.py)
NOTNONE_CALLS = set()      # package functions whose every return statement yields a value that cannot be None (model.py)
NUMERIC_RESULT = {'choice', 'normal', 'uniform', 'integers', 'standard_normal', 'chisquare', 'tile_rows', 'tile_cols', 'size', 'trunc', 'floordiv', 'mod', 'min', 'max', 'meshgrid', 'zeros', 'ones', 'full', 'empty', 'linspace', 'arange', 'array', 'diff', 'reshape', 'repeat',
                  'concatenate', 'append', 'abs', 'sqrt', 'exp', 'log', 'cos', 'sin', 'round', 'floor', 'ceil', 'mean', 'sum',
                  'std', 'cumsum', 'len', 'int', 'float', 'astype', 'real', 'imag', 'maximum', 'minimum', 'clip', 'where',
                  'tile', 'flip', 'transpose', 'fft', 'fftshift', 'rfft', 'frombuffer', 'copy'}


def truthy(t):
    """Python truthiness of a term where decidable, else the term itself as a condition."""
    t = lift(t)
    if _isnone(t):
        return FALSE
    c = t.const()
    if c is not None:
        return TRUE if c != 0 else FALSE
    at = t.single_atom()
    if at is not None and at.kind in ('closure', 'new', 'func', 'class'):
        return TRUE
    if at is not None and at.kind in ('tuple', 'list', 'dict', 'str'):
        return TRUE if (at.args and at.args != ('',)) else FALSE
    if at is not None and at.kind == 'attr' and at.args[1] in LIST_ATTRS:
        return mk_not(mk_cmp('==', mk_call('len', [t]), Term.num(0)))      # a list is true iff it is not empty
    return t


def _numeric_like(t):
    for a in t.atoms():
        if a.kind in ('str', 'none', 'tuple', 'list', 'bool', 'dict'):
            return False
    return True


def mk_not(c):
    c = lift(c)
    if c.key == TRUE.key:
        return FALSE
    if c.key == FALSE.key:
        return TRUE
    a = c.single_atom()
    if a is not None and a.kind == 'not':
        return a.args[0]
    return Term.of(Atom('not', c))


def mk_and(cs):
    out = []
    for c in cs:
        c = lift(c)
        if c.key == FALSE.key:
            return FALSE
        if c.key == TRUE.key:
            continue
        a = c.single_atom()
        if a is not None and a.kind == 'and':
            out.extend(a.args)
        else:
            out.append(c)
    uniq = {c.key: c for c in out}
    for c in out:
        if mk_not(c).key in uniq:
            return FALSE            # x and not x
    if not uniq:
        return TRUE
    if len(uniq) == 1:
        return next(iter(uniq.values()))
    return Term.of(Atom('and', *[uniq[k] for k in sorted(uniq)]))


def mk_or(cs):
    return mk_not(mk_and([mk_not(c) for c in cs]))


def mk_ite(c, a, b):
    c, a, b = lift(c), lift(a), lift(b)
    if c.key == TRUE.key:
        return a
    if c.key == FALSE.key:
        return b
    if a.key == b.key:
        return a
    at = c.single_atom()
    if at is not None and at.kind == 'not':
        return mk_ite(at.args[0], b, a)
    # cofactors: inside the arms the condition itself is decided (c ? (c ? x : y) : z  ==  c ? x : z)
    if at is None or at.kind != 'and':
        if c.key in _conditions_memo(a):
            a = assume(a, {c.key: True})
        if c.key in _conditions_memo(b):
            b = assume(b, {c.key: False})
        if a.key == b.key:
            return a
    # q if q > 0 else 0  ==  max(q, 0)     (and  0 if q < 0 else q)
    if _numeric_like(a) and _numeric_like(b):
        if b.const() == 0 and c.key == mk_cmp('<', -a, Term.num(0)).key:
            return mk_call('max', [a, Term.num(0)])
        if a.const() == 0 and c.key == mk_cmp('<', b, Term.num(0)).key:
            return mk_call('max', [b, Term.num(0)])
    # L.append(x) on one branch, L.append(y) on the other  ==  L.append(x if c else y)
    xa, xb = a.single_atom(), b.single_atom()
    if xa is not None and xb is not None and xa.kind == 'call' and xb.kind == 'call' and xa.args[0] == 'mut.append' \
            and xb.args[0] == 'mut.append' and len(xa.args[1]) == 2 and len(xb.args[1]) == 2 \
            and xa.args[1][0].key == xb.args[1][0].key and not xa.args[2] and not xb.args[2]:
        return Term.of(Atom('call', 'mut.append', (xa.args[1][0], mk_ite(c, xa.args[1][1], xb.args[1][1])), ()))
    return Term.of(Atom('ite', c, a, b))


# function-name synonyms -> canonical head
SYN = {
    'around': 'round', 'round_': 'round', 'rint': 'round',
    'absolute': 'abs', 'fabs': 'abs',
    'amin': 'min', 'amax': 'max',
    'asarray': 'array', 'asanyarray': 'array', 'ascontiguousarray': 'array', 'average': 'mean',
    'true_divide': 'divide',
    'concatenate': 'concatenate',
    'power': 'pow',
}

# heads whose semantics the normaliser knows (differences between such atoms are decisive)
STR_METHODS = {'.startswith', '.endswith', '.strip', '.lstrip', '.rstrip', '.decode', '.encode', '.replace', '.split',
               '.join', '.format', '.lower', '.upper', '.get', '.items', '.keys', '.values', '.index', '.count', '.find',
               'fmt', 'fstr', 'bytes', 'str'}

MODELLED = {
    'round', 'floor', 'ceil', 'trunc', 'abs', 'sqrt', 'min', 'max', 'minimum', 'maximum',
    'mean', 'sum', 'std', 'median', 'var', 'cos', 'sin', 'exp', 'log', 'log10', 'log2', 'sinc',
    'real', 'imag', 'len', 'floordiv', 'mod', 'clip', 'linspace', 'arange', 'zeros', 'ones',
    'empty', 'full', 'reshape', 'meshgrid', 'diff', 'array', 'copy', 'astype', 'fft', 'fftshift',
    'rfft', 'concatenate', 'append', 'repeat', 'where', 'flip', 'transpose', 'int', 'float',
    'complex', 'firwin', 'sort', 'cumsum', 'tobytes', 'frombuffer', 'tile', 'expand_dims',
    'tile_rows', 'tile_cols', 'size', 'isinstance', 'callable', 'range', 'enumerate', 'normal', 'chisquare', 'choice', 'integers',
    'standard_normal', 'uniform', 'default_rng', 'power', 'sigma_clip', 'deepcopy', 'shape',
    'iscomplexobj', 'getattr', 'Time', 'unix', 'mjd', 'str', 'strip', 'encode', 'decode',
    'format', 'fstr', 'wofz', 'modf', 'unique', 'vectorize', 'dict', 'list', 'zip', 'sorted',
    'glob', 'open', 'read', 'keys', 'items', 'get', 'T', 'flatten', 'nan_to_num', 'bytearray', 'Time.mjd', 'Time.unix',
}

PACKAGE_HEADS = set()   # short names of package functions (opaque but known heads)

ODD = {'round', 'trunc', 'sin', 'real', 'imag', 'sum', 'mean', 'int', 'float', 'cumsum', 'median'}
EVEN = {'abs', 'cos'}
COMMUTATIVE = {'min', 'max', 'minimum', 'maximum'}


def _array_valued(t, depth=0):
    """t denotes a numpy array: a symbol declared as array input, or a slice / item selection of one"""
    a = t.single_atom()
    if a is None or depth > 4:
        return False
    if a.kind == 'sym':
        return SYMKIND.get(a.args[0]) == 'array'
    if a.kind == 'call' and a.args[0] in ('concatenate', 'zeros', 'ones', 'empty', 'full', 'array', 'astype', 'reshape', 'linspace',
                                          'arange', 'fft', 'fftshift', 'around', 'clip', 'abs', 'real', 'imag', 'frombuffer'):
        return True
    if a.kind == 'seq':
        return True
    if a.kind == 'sub':
        ia = a.args[1].single_atom()
        sliced = ia is not None and (ia.kind == 'slice' or (ia.kind == 'tuple' and any(
            x.single_atom() is not None and x.single_atom().kind == 'slice' for x in ia.args)))
        return sliced and _array_valued(a.args[0], depth + 1)
    return False


ATTR_RANK = {'data': 2, 'ts': 1, 'fs': 1, 'v': 1}      # number of axes of the arrays these attributes hold in setigen


ELEMENTWISE_RANK = {'abs', 'real', 'imag', 'conj', 'sqrt', 'exp', 'log', 'square', 'astype', 'fft', 'ifft', 'fftshift', 'ifftshift',
                    'round', 'floor', 'ceil', 'copy', 'nan_to_num', 'clip', 'T'}


SHIFT_THROUGH = {'abs', 'real', 'imag', 'conj', 'square', 'exp', 'log', 'astype', 'nan_to_num'}


def _replicate_len(t):
    """number of items of [v] * n, also after item stores into it and under conditionals (None if t is not such a list)"""
    a = t.single_atom() if isinstance(t, Term) else None
    if a is None:
        return None
    if a.kind == 'replicate':
        return a.args[1]
    if a.kind == 'store':
        return _replicate_len(a.args[0])
    if a.kind == 'ite':
        l1, l2 = _replicate_len(a.args[1]), _replicate_len(a.args[2])
        return l1 if (l1 is not None and l2 is not None and l1.key == l2.key) else None
    return None


def _replicate_item(t, idx):
    """item idx of [v] * n with item stores: a chain of `idx == k ? stored : ...` ending in v"""
    a = t.single_atom()
    if a.kind == 'replicate':
        return a.args[0]
    if a.kind == 'ite':
        return mk_ite(a.args[0], _replicate_item(a.args[1], idx), _replicate_item(a.args[2], idx))
    if a.kind == 'store':
        k = a.args[1]
        kc = k.const()
        if kc is not None and kc < 0:
            k = _replicate_len(a.args[0]) + kc          # L[-1] is L[len(L) - 1]
        ic = idx.const()
        if ic is not None and ic < 0:
            idx = _replicate_len(a.args[0]) + ic
        return mk_ite(mk_cmp('==', idx, k), a.args[2], _replicate_item(a.args[0], idx))
    return None


def _int8_valued(t):
    """items of an array read from bytes as int8 (np.frombuffer(..., dtype=np.int8), reshaped / indexed)"""
    a = t.single_atom() if isinstance(t, Term) else None
    while a is not None:
        if a.kind == 'sub':
            a = a.args[0].single_atom()
        elif a.kind == 'call' and a.args[0] in ('reshape', 'T', 'copy') and a.args[1]:
            a = a.args[1][0].single_atom()
        elif a.kind == 'call' and a.args[0] == 'frombuffer':
            d_ = dict(a.args[2]).get('dtype')
            return d_ is not None and d_.single_atom() is not None and str(d_.single_atom().args[0]).endswith('int8')
        else:
            return False
    return False


def _push_shift(fn, x, kwargs, depth=0):
    """fn(x, **kwargs) for a polynomial / element-wise x, with the shift moved onto the leaves; None when x is a leaf"""
    if depth > 6:
        return None
    a = x.single_atom()
    if a is not None:
        if a.kind == 'call' and a.args[0] in ('zeros', 'ones', 'full', 'empty'):
            return x
        if a.kind == 'call' and a.args[0] in SHIFT_THROUGH and len(a.args[1]) >= 1:
            inner = _push_shift(fn, a.args[1][0], kwargs, depth + 1)
            if inner is None:
                inner = Term.of(Atom('call', fn, (a.args[1][0],), tuple(kwargs)))
            return mk_call(a.args[0], [inner] + list(a.args[1][1:]), a.args[2])
        return None
    if x.const() is not None:
        return x
    out = Term.num(0)
    for m, c in x.p.items():
        mono = Term.num(c)
        for at, e in m:
            leaf = Term.of(at)
            sh = _push_shift(fn, leaf, kwargs, depth + 1)
            if sh is None:
                sh = Term.of(Atom('call', fn, (leaf,), tuple(kwargs)))
            mono = mono * sh.pow(e)
        out = out + mono
    return out


def rank_of(t, depth=0):
    """number of axes of an array term where it follows from a constructor / reshape / known attribute (None = unknown);
    scalars broadcast, so the rank of a sum or product is the largest rank among its array-valued factors"""
    if depth > 8 or not isinstance(t, Term):
        return None
    a = t.single_atom()
    if a is None:
        rs = [rank_of(Term.of(x), depth + 1) for x in t.atoms()]
        rs = [r for r in rs if r is not None]
        return max(rs) if rs else None
    if a.kind == 'seq':
        return 1
    if a.kind == 'attr':
        return ATTR_RANK.get(a.args[1])
    if a.kind == 'call' and a.args[0] in ('zeros', 'ones', 'empty', 'full') and a.args[1]:
        sa = a.args[1][0].single_atom()
        return len(sa.args) if sa is not None and sa.kind in ('tuple', 'list') else None
    if a.kind == 'call' and a.args[0] == 'reshape' and len(a.args[1]) >= 2:
        sa = a.args[1][1].single_atom()
        if len(a.args[1]) > 2:
            return len(a.args[1]) - 1
        return len(sa.args) if sa is not None and sa.kind in ('tuple', 'list') else None
    if a.kind == 'call' and a.args[0] in ('tile_rows', 'tile_cols'):
        return 2
    if a.kind == 'call' and a.args[0] in ELEMENTWISE_RANK and a.args[1]:
        return rank_of(a.args[1][0], depth + 1)
    if a.kind == 'ite':
        r1, r2 = rank_of(a.args[1], depth + 1), rank_of(a.args[2], depth + 1)
        return r1 if r1 == r2 else None
    return None


def _rank1(t):
    """t is known to be a one-dimensional array: a linspace/arange sequence, an attribute of rank 1, or a slice of one"""
    a = t.single_atom() if isinstance(t, Term) else None
    if a is None:
        return False
    if a.kind == 'seq':
        return True
    if a.kind == 'attr':
        return ATTR_RANK.get(a.args[1]) == 1
    if a.kind == 'sub':
        ia = a.args[1].single_atom()
        return ia is not None and ia.kind == 'slice' and _rank1(a.args[0])
    if a.kind == 'ite':
        return _rank1(a.args[1]) and _rank1(a.args[2])
    return False


def _elem_rank(t):
    """rank of the items of a list of arrays, when every item is an attribute of known rank (or a comprehension of one)"""
    a = t.single_atom()
    if a is None:
        return None
    if a.kind == 'comp':
        # (scalars broadcast: the rank of a sum / product is the largest rank among its array-valued attributes)
        rs = [ATTR_RANK[x.args[1]] for x in a.args[1].atoms() if x.kind == 'attr' and x.args[1] in ATTR_RANK]
        return max(rs) if rs else None
    if a.kind in ('list', 'tuple') and a.args:
        rs = {ATTR_RANK.get(x.single_atom().args[1]) if x.single_atom() is not None and x.single_atom().kind == 'attr' else None
              for x in a.args}
        return rs.pop() if len(rs) == 1 else None
    return None


def _elementwise_len(t, depth=0):
    """length of an element-wise combination (arithmetic, min/max, rounding) of arrays of one known length and scalars:
    np.maximum(a0 + k*d, a1 + k*d) for k = np.array(range(n))  has n items"""
    if depth > 6:
        return None
    found = []

    def atom_len(a):
        if a.kind == 'seq':
            return a.args[2]
        if a.kind == 'call' and a.args[0] == 'array' and a.args[1]:
            ia = a.args[1][0].single_atom()
            if ia is not None and ia.kind == 'call' and ia.args[0] == 'range' and len(ia.args[1]) == 1 and not ia.args[2]:
                return ia.args[1][0]
            return _elementwise_len(a.args[1][0], depth + 1)
        if a.kind == 'call' and a.args[0] in ('min', 'max', 'minimum', 'maximum', 'abs', 'round', 'floor', 'ceil', 'astype') \
                and a.args[1]:
            ls = [_elementwise_len(x, depth + 1) for x in a.args[1]]
            ls = [x for x in ls if x is not None]
            if ls and all(x.key == ls[0].key for x in ls):
                return ls[0]
        return None
    if not isinstance(t, Term):
        return None
    for a in t.atoms():
        n = atom_len(a)
        if n is not None:
            found.append(n)
        elif a.kind in ('call', 'comp', 'list', 'tuple', 'store', 'ite') and not (a.kind == 'call' and a.args[0] in (
                'len', 'size', 'floor', 'ceil', 'round', 'trunc', 'int', 'float', 'floordiv', 'mod', 'shape')):
            return None            # something whose shape is not known
    if found and all(x.key == found[0].key for x in found):
        return found[0]
    return None


def _strip_array(t):
    a = t.single_atom()
    while a is not None and a.kind == 'call' and a.args[0] == 'array' and len(a.args[1]) == 1 and not a.args[2]:
        t = a.args[1][0]
        a = t.single_atom()
    return t


def mk_call(fn, args=(), kwargs=()):
    """Canonical call atom with algebraic normalisations.  kwargs: iterable of (name, Term)."""
    fn = SYN.get(fn, fn)
    args = [lift(a) for a in args]
    kwargs = tuple(sorted(((k, lift(v)) for k, v in (kwargs.items() if isinstance(kwargs, dict) else kwargs)),
                          key=lambda kv: kv[0]))
    if fn == 'sqrt' and len(args) == 1 and not kwargs:
        return args[0].pow(F(1, 2))
    if fn == 'pow' and len(args) == 2 and not kwargs:
        e = args[1].const()
        if e is not None:
            return args[0].pow(e)
    if fn == 'abs' and len(args) == 1:
        x = args[0]
        c = x.const()
        if c is not None:
            return Term.num(abs(c))
        if is_nonneg(x):
            return x
        if is_nonneg(-x):
            return -x
        mono = x.monomial()
        if mono is not None:
            c, m = mono
            # abs(c * m) = |c| * abs(m); pull out positive atoms
            pos = tuple((a, e) for a, e in m if _atom_pos(a))
            rest = tuple((a, e) for a, e in m if not _atom_pos(a))
            if pos or c != 1:
                inner = mk_call('abs', [Term({rest: F(1)})]) if rest else Term.num(1)
                return Term({pos: abs(c)}) * inner
        if leading_sign(x) < 0:
            x = -x
        args = [x]
    if EXACT_MODE[0] and fn in ('floor', 'ceil', 'trunc', 'int') and len(args) == 1 and _int_ratio(args[0]):
        return args[0]
    if EXACT_MODE[0] and fn == 'floordiv' and len(args) == 2 and _int_ratio(args[0] / args[1]):
        return args[0] / args[1]
    if fn in ('round', 'floor', 'ceil', 'trunc', 'int') and len(args) >= 1:
        x = args[0]
        if len(args) == 1 or fn != 'round':
            c = x.const()
            if c is not None and len(args) == 1:
                if fn == 'round':
                    return Term.num(_round_half_even(c))
                if fn == 'floor':
                    return Term.num(math.floor(c))
                if fn == 'ceil':
                    return Term.num(math.ceil(c))
                return Term.num(math.trunc(c))
            if is_integer(x) and len(args) == 1:
                return x
        if fn == 'int':
            fn = 'trunc'
    if fn == 'floor' and len(args) == 1 and not kwargs:
        # integer ceiling division:  (n + b - 1) // b  ==  ceil(n / b)   for an integer n and a positive integer b
        # (floor(q + 1 - 1/b) with q*b an integer: q = k + j/b, 0 <= j < b, and the floor is k + (1 if j else 0))
        x = args[0]
        if x.p.get((), F(0)) == 1:
            for m, c in x.p.items():
                if c == -1 and len(m) == 1 and m[0][1] == -1 and _atom_pos(m[0][0]) and is_integer(Term({((m[0][0], F(1)),): F(1)})):
                    b = Term({((m[0][0], F(1)),): F(1)})
                    q = x - Term.num(1) + Term({m: F(1)})
                    if is_integer(q * b):
                        return mk_call('ceil', [q])
    if fn in ODD and len(args) == 1 and not kwargs and leading_sign(args[0]) < 0:
        return -mk_call(fn, [-args[0]])
    if fn in ('floor', 'ceil') and len(args) == 1 and not kwargs and leading_sign(args[0]) < 0:
        return -mk_call('ceil' if fn == 'floor' else 'floor', [-args[0]])
    if fn == 'trunc' and len(args) == 1 and is_nonneg(args[0]):
        fn = 'floor'
    if fn in EVEN and len(args) == 1 and leading_sign(args[0]) < 0:
        args = [-args[0]]
    if fn == 'isinstance' and len(args) == 2 and not kwargs:
        # isinstance(x, (A, B))  ==  isinstance(x, A) or isinstance(x, B): one proposition per class
        ca = args[1].single_atom()
        if ca is not None and ca.kind == 'tuple' and len(ca.args) > 1:
            return mk_or([mk_call('isinstance', [args[0], c]) for c in ca.args])
        if ca is not None and ca.kind == 'tuple' and len(ca.args) == 1:
            args = [args[0], ca.args[0]]
    def _prop(t_):
        a_ = t_.single_atom() if isinstance(t_, Term) else None
        return isinstance(t_, Term) and (t_.key in (TRUE.key, FALSE.key) or (a_ is not None and a_.kind in ('cmp', 'not', 'and')))
    if fn in ('binBitAnd', 'binBitOr', 'logical_and', 'logical_or') and len(args) == 2 and not kwargs and all(_prop(x) for x in args):
        # element-wise & / | of two propositions
        return mk_and(list(args)) if fn in ('binBitAnd', 'logical_and') else mk_or(list(args))
    if fn == 'where' and (len(args) == 3 and not kwargs or (len(args) == 1 and set(dict(kwargs)) == {'x', 'y'})):
        # np.where(c, x, y): element-wise conditional
        x_, y_ = (args[1], args[2]) if len(args) == 3 else (dict(kwargs)['x'], dict(kwargs)['y'])
        if _prop(args[0]) or (args[0].single_atom() is not None and args[0].single_atom().kind == 'ite'):
            return mk_ite(args[0], x_, y_)
    if fn == 'bool' and len(args) == 1 and not kwargs and isinstance(args[0], Term):
        # bool(p) of a truth value / proposition is p; of a number, its non-zero test
        if args[0].key in (TRUE.key, FALSE.key) or _boolean(args[0]) or (
                args[0].single_atom() is not None and args[0].single_atom().kind == 'cmp'):
            return args[0]
        if args[0].const() is not None:
            return TRUE if args[0].const() != 0 else FALSE
    if fn in ('multiply', 'add', 'subtract', 'divide', 'true_divide') and len(args) == 2 and not kwargs and \
            all(isinstance(x, Term) for x in args):
        # the numpy ufunc spelling of an arithmetic operator
        a_, b_ = args
        return a_ * b_ if fn == 'multiply' else a_ + b_ if fn == 'add' else a_ - b_ if fn == 'subtract' else a_ / b_
    if fn in ('minimum', 'maximum') and len(args) == 2 and not kwargs:
        fn = fn[:3]             # element-wise minimum/maximum of two values: the same function as two-argument min/max
    if fn == 'clip' and len(args) == 1 and set(dict(kwargs)) == {'a_min', 'a_max'}:
        kd = dict(kwargs)
        if not _isnone(kd['a_min']) and not _isnone(kd['a_max']):
            return mk_call('min', [mk_call('max', [args[0], kd['a_min']]), kd['a_max']])     # clip(x, lo, hi)
    if fn == 'astype' and kwargs:
        # the platform integer / float: astype(int) == astype(np.int64), astype(float) == astype(np.float64)
        kd = dict(kwargs)
        da = kd.get('dtype').single_atom() if kd.get('dtype') is not None else None
        if da is not None and da.kind == 'ext' and da.args[0] in ('numpy.int64', 'numpy.int_', 'numpy.float64', 'numpy.float_',
                                                                 'numpy.double'):
            kd['dtype'] = Term.of(Atom('builtin', 'int' if 'int' in da.args[0] else 'float'))
            kwargs = tuple(sorted(kd.items(), key=lambda kv: kv[0]))
    if fn == 'append' and len(args) == 1 and set(dict(kwargs)) == {'values'}:
        # appending the next grid point to an evenly spaced axis extends the axis
        sq = as_seq(args[0])
        if sq is not None:
            st_, dd_, n_ = sq
            if (dict(kwargs)['values'] - (st_ + n_ * dd_)).is_zero():
                return mk_seq(st_, dd_, n_ + 1)
    if fn == 'concatenate' and len(args) == 1 and not kwargs:
        # np.concatenate((a, [v]))  ==  np.append(a, v)
        ta = args[0].single_atom()
        if ta is not None and ta.kind in ('tuple', 'list') and len(ta.args) == 2:
            la = ta.args[1].single_atom()
            if la is not None and la.kind in ('list', 'tuple') and len(la.args) == 1:
                return mk_call('append', [ta.args[0]], [('values', la.args[0])])
    if fn in ('vstack', 'hstack') and len(args) == 1 and not kwargs:
        # stacking 2-d blocks vertically / 1-d arrays end to end is concatenation along the first axis (rank by attribute)
        r = _elem_rank(args[0])
        if (fn, r) in (('vstack', 2), ('hstack', 1)):
            return mk_call('concatenate', [args[0]])
    if fn in ('sum', 'min', 'max', 'any', 'all', 'sorted', 'list', 'tuple', 'array', 'concatenate', 'vstack', 'hstack', 'set',
              'dict', 'mean', 'std') and args:
        # a generator expression that is consumed on the spot is the list of its items
        ga = args[0].single_atom()
        if ga is not None and ga.kind == 'comp' and ga.args[0] == 'gen':
            args = [Term.of(Atom('comp', 'list', *ga.args[1:]))] + list(args[1:])
    if fn in ('any', 'all') and len(args) == 1 and not kwargs:
        la = args[0].single_atom()
        if la is not None and la.kind in ('list', 'tuple'):
            conds = [truthy(x) for x in la.args]          # any([a, b]) == a or b
            return mk_or(conds) if fn == 'any' else mk_and(conds)
        if la is not None and la.kind == 'ite':
            return mk_ite(la.args[0], mk_call(fn, [la.args[1]]), mk_call(fn, [la.args[2]]))
    if fn in ('min', 'max') and len(args) == 1 and not kwargs:
        la = args[0].single_atom()
        if la is not None and la.kind in ('list', 'tuple') and la.args:
            args = list(la.args)            # min([a, b]) == min(a, b)
            if len(args) == 1:
                return args[0]
    if fn in COMMUTATIVE and not kwargs:
        cs = [a.const() for a in args]
        if all(c is not None for c in cs) and cs:
            return Term.num(min(cs) if fn in ('min', 'minimum') else max(cs))
        if len(args) == 2 and fn in ('min', 'max'):
            d = (args[0] - args[1]).const()
            if d is not None:
                # the two differ by a constant: min(n, n - 1) == n - 1
                smaller, larger = (args[0], args[1]) if d <= 0 else (args[1], args[0])
                return smaller if fn == 'min' else larger
            if _numeric_like(args[0]) and _numeric_like(args[1]):
                if ge0(args[0] - args[1]):
                    return args[1] if fn == 'min' else args[0]
                if ge0(args[1] - args[0]):
                    return args[0] if fn == 'min' else args[1]
        args = sorted(args, key=lambda a: a.key)
    if fn == 'floordiv' and len(args) == 2:
        a, b = args
        ca, cb = a.const(), b.const()
        if ca is not None and cb is not None and cb != 0:
            return Term.num(ca // cb)
        q = a / b
        if is_integer(q):
            return q
    if fn == 'mod' and len(args) == 2:
        a, b = args
        ca, cb = a.const(), b.const()
        if ca is not None and cb is not None and cb != 0:
            return Term.num(ca % cb)
    if fn in ('Time.unix', 'Time.mjd') and len(args) == 2 and not kwargs:
        # astropy Time(Time(y, format=a).b, format=b).a == y  (inverse pair unix <-> mjd)
        me = fn.split('.')[1]
        ia = args[0].single_atom()
        fa = args[1].single_atom()
        if ia is not None and ia.kind == 'call' and ia.args[0] in ('Time.unix', 'Time.mjd') and fa is not None and fa.kind == 'str':
            other = ia.args[0].split('.')[1]
            oa = ia.args[1][1].single_atom() if len(ia.args[1]) == 2 else None
            if other == fa.args[0] and oa is not None and oa.kind == 'str' and oa.args[0] == me:
                return ia.args[1][0]
    if fn == 'concatenate' and args:
        xa = args[0].single_atom()
        if xa is not None and xa.kind == 'list':
            args = [mk_tuple(xa.args)] + list(args[1:])     # concatenate([a, b]) == concatenate((a, b))
    # constant folding of text formatting: f"{'END':<80}" is the 80-character string, "x".encode() the bytes
    if fn == 'fmt' and len(args) == 2 and not kwargs:
        va, sa_ = args[0].single_atom(), args[1].single_atom()
        if va is not None and va.kind == 'str' and sa_ is not None and sa_.kind == 'str':
            try:
                return Term.of(Atom('str', format(va.args[0], sa_.args[0])))
            except (ValueError, TypeError):
                pass
    if fn == 'fstr' and not kwargs and args and all(x.single_atom() is not None and x.single_atom().kind == 'str' for x in args):
        return Term.of(Atom('str', ''.join(x.single_atom().args[0] for x in args)))
    if fn == '.encode' and len(args) == 1 and not kwargs:
        va = args[0].single_atom()
        if va is not None and va.kind == 'str':
            return Term.of(Atom('bytes', va.args[0].encode()))
    if fn == '.decode' and len(args) == 1 and not kwargs:
        va = args[0].single_atom()
        if va is not None and va.kind == 'bytes':
            try:
                return Term.of(Atom('str', va.args[0].decode()))
            except UnicodeDecodeError:
                pass
    if fn == 'copy' and len(args) == 1 and not kwargs:
        return args[0]              # a copy has the same VALUE (whether it is a copy is decided by the effect/alias rules)
    if fn == 'array' and len(args) == 1 and not kwargs and _array_valued(args[0]):
        return args[0]              # np.array(ndarray) has the same value
    if fn == 'array' and len(args) == 1 and not kwargs:
        xa = args[0].single_atom()
        if xa is not None and (xa.kind == 'seq' or (xa.kind == 'call' and xa.args[0] in (
                'zeros', 'ones', 'empty', 'full', 'array', 'copy', 'astype', 'reshape', 'concatenate'))):
            return args[0]          # np.array(ndarray) has the same value
    if fn == 'astype' and len(args) == 1 and len(kwargs) == 1 and kwargs[0][0] == 'dtype' and args[0].const() is not None:
        da_ = kwargs[0][1].single_atom()
        dn_ = str(da_.args[0]) if da_ is not None and da_.kind in ('builtin', 'ext') else ''
        if 'int' in dn_:
            return Term.num(math.trunc(args[0].const()))
        if 'float' in dn_:
            return args[0]
    if fn == 'astype' and len(args) == 1 and len(kwargs) == 1 and kwargs[0][0] == 'dtype':
        xa = args[0].single_atom()
        if xa is not None and xa.kind == 'call' and xa.args[0] in ('zeros', 'ones', 'full', 'empty', 'astype'):
            if dict(xa.args[2]).get('dtype') is not None and dict(xa.args[2])['dtype'].key == kwargs[0][1].key:
                return args[0]      # already of that dtype
    if fn == 'float' and len(args) == 1 and not kwargs and _numeric_like(args[0]) and \
            not any(a.kind == 'sub' for a in args[0].atoms()):
        return args[0]
    if fn in ('fft', 'ifft', 'fftshift', 'ifftshift', 'sum', 'mean', 'std', 'concatenate', 'flip') and args and kwargs:
        # a negative axis of an array of known rank is that axis counted from the front
        for i_, (k_, v_) in enumerate(kwargs):
            if k_ in ('axis', 'axes') and isinstance(v_, Term) and v_.const() is not None and v_.const() < 0:
                r_ = rank_of(args[0])
                if r_ is not None and r_ + v_.const() >= 0:
                    kwargs = kwargs[:i_] + ((k_, Term.num(r_ + v_.const())),) + kwargs[i_ + 1:]
    if fn in ('fftshift', 'ifftshift') and len(args) == 1 and isinstance(args[0], Term):
        # a shift along an axis is a permutation of the items: it commutes with everything element-wise, so it is pushed
        # through sums, products, powers and element-wise functions down to the arrays it actually permutes
        # (fftshift(|X|**2 + zeros(s)) == |fftshift(X)|**2 + zeros(s)); constants and constant-filled arrays are invariant
        pushed = _push_shift(fn, args[0], kwargs)
        if pushed is not None:
            return pushed
    if fn in ('fft', 'ifft') and args and not any(k_ == 'axis' for k_, _ in kwargs):
        r_ = rank_of(args[0])
        if r_ is not None and r_ >= 1:
            return mk_call(fn, args, tuple(kwargs) + (('axis', Term.num(r_ - 1)),))
    if fn in ('hstack', 'vstack') and len(args) == 1 and not kwargs and args[0].single_atom() is not None and \
            args[0].single_atom().kind == 'call' and args[0].single_atom().args[0] in ('list', 'tuple') and \
            len(args[0].single_atom().args[1]) == 1 and (rank_of(args[0].single_atom().args[1][0]) or 0) >= 3:
        # hstack(list(X)) of one array X of three or more axes: list() only spells out the iteration over the first axis
        return mk_call(fn, [args[0].single_atom().args[1][0]])
    if fn == 'roll' and ((len(args) == 1 and set(k_ for k_, _ in kwargs) == {'shift', 'axis'}) or
                         (len(args) == 2 and set(k_ for k_, _ in kwargs) == {'axis'})):
        # np.roll(X, n // 2, axis=k) with n the length of axis k is fftshift along k (for even and odd n)
        kd_ = dict(kwargs)
        if len(args) == 2:
            kd_['shift'] = args[1]
        ax_ = kd_['axis'].const()
        if ax_ is not None and ax_.denominator == 1:
            r_ = rank_of(args[0])
            ax_ = int(ax_) if ax_ >= 0 else (int(ax_) + r_ if r_ is not None else None)
            d_ = shape_dim(args[0], ax_) if ax_ is not None and ax_ >= 0 else None
            if d_ is not None and _cmp_canon(kd_['shift']).key == _cmp_canon(mk_call('floordiv', [d_, Term.num(2)])).key:
                return mk_call('fftshift', [args[0]], [('axes', Term.num(ax_))])
    if fn in ('hstack', 'vstack') and len(args) == 1 and not kwargs and args[0].single_atom() is not None and \
            args[0].single_atom().kind not in ('tuple', 'list', 'comp') and (rank_of(args[0]) or 0) >= 3:
        # stacking ONE array of three or more axes iterates its first axis: hstack joins the items side by side
        return mk_call('concatenate', [args[0]], [('axis', Term.num(1 if fn == 'hstack' else 0))])
    if fn == 'len' and len(args) == 1 and not kwargs and isinstance(args[0], Term):
        n_ = _replicate_len(args[0])
        if n_ is not None:
            return n_
        ca_ = args[0].single_atom()
        if ca_ is not None and ca_.kind == 'comp' and ca_.args[0] == 'list' and len(ca_.args[2]) == 1:
            # len([E(x) for x in IT]) (no filter) is len(IT)
            g_ = ca_.args[2][0].single_atom()
            if g_ is not None and g_.kind == 'tuple' and len(g_.args) == 1:
                ia_ = g_.args[0].single_atom()
                if ia_ is not None and ia_.kind == 'call' and ia_.args[0] == 'range' and len(ia_.args[1]) == 1 and not ia_.args[2]:
                    return ia_.args[1][0]
                return mk_call('len', [g_.args[0]])
    if fn == 'len' and len(args) == 1 and not kwargs and isinstance(args[0], Term) and (
            args[0].single_atom() is None or (args[0].single_atom().kind == 'call' and args[0].single_atom().args[0] in (
                'concatenate', 'zeros', 'empty', 'ones', 'full', 'reshape'))):
        d_ = shape_dim(args[0], 0)
        if d_ is not None:
            return d_
    if fn == 'len' and len(args) == 1 and not kwargs and args[0].single_atom() is not None and \
            args[0].single_atom().kind == 'call' and args[0].single_atom().args[0] == 'T' and len(args[0].single_atom().args[1]) == 1:
        # (x.T is the two-dimensional transpose throughout setigen)
        return mk_sub(mk_call('shape', [args[0].single_atom().args[1][0]]), Term.num(1))
    if fn == 'binRShift' and len(args) == 2 and not kwargs and args[1].const() is not None and \
            args[1].const().denominator == 1 and 0 <= args[1].const() <= 62:
        k_ = int(args[1].const())
        la_ = args[0].single_atom()
        if la_ is not None and la_.kind == 'call' and la_.args[0] == 'binLShift' and len(la_.args[1]) == 2 and \
                la_.args[1][1].const() == k_ == 4 and _int8_valued(la_.args[1][0]):
            # (x << 4) >> 4 on 8-bit two's complement integers is the sign-extended low nibble of x: written here as the
            # masked form  n = x - 16*(x // 16); n[n >= 8] -= 16
            x_ = la_.args[1][0]
            n_ = x_ - 16 * mk_call('floordiv', [x_, Term.num(16)])
            mask_ = mk_cmp('>=', n_, Term.num(8))
            return mk_store(n_, mask_, mk_sub(n_, mask_) - 16)
        # an arithmetic right shift of a (signed) integer is the floor division by the power of two
        return mk_call('floordiv', [args[0], Term.num(2 ** k_)])
    if fn == 'ix_' and len(args) == 2 and not kwargs:
        # np.ix_(rows, cols) is the open mesh (rows[:, None], cols[None, :])
        full = mk_slice(NONE, NONE, NONE)
        return mk_tuple([mk_sub(args[0], mk_tuple([full, NONE])), mk_sub(args[1], mk_tuple([NONE, full]))])
    if fn == 'diff' and len(args) == 1 and not kwargs and isinstance(args[0], Term):
        # np.diff(x) of a one-dimensional x is x[1:] - x[:-1] (not applied to values known to have two axes)
        xa = args[0].single_atom()
        two_d = xa is not None and ((xa.kind == 'attr' and ATTR_RANK.get(xa.args[1]) == 2) or
                                    (xa.kind == 'call' and xa.args[0] in ('tile_rows', 'tile_cols', 'meshgrid', 'vstack', 'reshape')))
        if not two_d:
            return mk_sub(args[0], mk_slice(Term.num(1), NONE, NONE)) - mk_sub(args[0], mk_slice(NONE, Term.num(-1), NONE))
    if fn == 'tile' and args and len(args) + len(kwargs) == 2 and (len(args) == 2 or kwargs[0][0] == 'reps'):
        # np.tile(v, (n, 1)) of a one-dimensional v is the frequency-like grid of np.meshgrid(v, <n values>)
        reps = (args[1] if len(args) == 2 else kwargs[0][1]).single_atom()
        if reps is not None and reps.kind in ('tuple', 'list') and len(reps.args) == 2 and reps.args[1].const() == 1 \
                and _rank1(_strip_array(args[0])):
            return mk_call('tile_rows', [_strip_array(args[0]), reps.args[0]])
        # np.tile(np.reshape(v, (1, -1)), (n, 1)) / np.tile(np.reshape(v, (-1, 1)), (1, n)): the row / column grid of flattened v
        xa_ = args[0].single_atom()
        if reps is not None and reps.kind in ('tuple', 'list') and len(reps.args) == 2 and xa_ is not None and xa_.kind == 'call' \
                and xa_.args[0] == 'reshape' and len(xa_.args[1]) == 2 and not xa_.args[2]:
            shp_ = xa_.args[1][1].single_atom()
            if shp_ is not None and shp_.kind == 'tuple' and len(shp_.args) == 2:
                s0_, s1_ = shp_.args[0].const(), shp_.args[1].const()
                if (s0_, s1_) == (1, -1) and reps.args[1].const() == 1:
                    return mk_call('tile_rows', [_strip_array(xa_.args[1][0]), reps.args[0]])
                if (s0_, s1_) == (-1, 1) and reps.args[0].const() == 1:
                    return mk_call('tile_cols', [_strip_array(xa_.args[1][0]), reps.args[1]])
    if fn in ('tile_rows', 'tile_cols') and len(args) == 2 and not kwargs:
        # the replication count of a grid is the number of items of the other (one-dimensional) axis: len == size there
        ca = args[1].single_atom()
        if ca is not None and ca.kind == 'call' and ca.args[0] == 'len' and len(ca.args[1]) == 1 and not ca.args[2]:
            args = [args[0], mk_call('size', [ca.args[1][0]])]
    if fn in ('size', 'len') and len(args) == 1 and not kwargs:
        # the axes of a frame have the frame's dimensions (established by C05): size(x.ts) is x.tchans, size(x.fs) is x.fchans
        # (applied by attribute name: for an object without those counts it is a consistent renaming on both compared sides)
        xa_ = _strip_array(args[0]).single_atom()
        if xa_ is not None and xa_.kind == 'attr' and xa_.args[1] in ('ts', 'fs'):
            return mk_attr(xa_.args[0], 'tchans' if xa_.args[1] == 'ts' else 'fchans')
    if fn == 'size' and len(args) == 1 and not kwargs:
        sq = as_seq(_strip_array(args[0]))
        if sq is not None:
            return sq[2]
        args = [_strip_array(args[0])]
    if fn == 'repeat' and len(args) == 1:
        # np.repeat(np.reshape(a, (1, -1)), n, axis=0) is the frequency-like grid of np.meshgrid(a, <n values>), and
        # np.repeat(np.reshape(b, (-1, 1)), n, axis=1) the time-like one: one canonical form for both spellings
        kwd = dict(kwargs)
        ra = args[0].single_atom()
        if ra is not None and ra.kind == 'call' and ra.args[0] == 'reshape' and len(ra.args[1]) == 2 and not ra.args[2] \
                and set(kwd) == {'repeats', 'axis'}:
            shp = ra.args[1][1].single_atom()
            ax = kwd['axis'].const()
            if shp is not None and shp.kind == 'tuple' and len(shp.args) == 2:
                s0, s1 = shp.args[0].const(), shp.args[1].const()
                if (s0, s1, ax) == (1, -1, 0):
                    return mk_call('tile_rows', [_strip_array(ra.args[1][0]), kwd['repeats']])
                if (s0, s1, ax) == (-1, 1, 1):
                    return mk_call('tile_cols', [_strip_array(ra.args[1][0]), kwd['repeats']])
    if fn == 'dict' and len(args) == 1 and not kwargs:
        # dict(zip(K, [v(k) for k in K]))  ==  {k: v(k) for k in K}
        za = args[0].single_atom()
        if za is not None and za.kind == 'call' and za.args[0] == 'zip' and len(za.args[1]) == 2 and not za.args[2]:
            K, L = za.args[1]
            la = L.single_atom()
            if la is not None and la.kind == 'comp' and la.args[0] == 'list' and len(la.args[2]) == 1:
                ga = la.args[2][0].single_atom()
                if ga is not None and ga.kind == 'tuple' and len(ga.args) == 1 and ga.args[0].key == K.key:
                    ids = {a.args[-1] for a in all_atoms(la.args[1]).values() if a.kind in ('elem', 'idx', 'key') and a.args
                           and isinstance(a.args[-1], str) and a.args[-1].startswith('C')}
                    cid = sorted(ids)[0] if ids else 'C0:0:0'
                    own = la.args[3:] if len(la.args) > 3 else (cid.rsplit(':', 1)[0],)
                    if not ids:
                        cid = own[0] + ':0'
                    return Term.of(Atom('comp', 'dict', mk_tuple([Term.of(Atom('elem', K, cid)), la.args[1]]), la.args[2], *own))
    if fn in ('zip', 'enumerate') and args and not kwargs:
        ats = [a.single_atom() for a in args]
        if fn == 'zip' and all(a is not None and a.kind in ('list', 'tuple') for a in ats):
            n = min(len(a.args) for a in ats)
            return mk_tuple([mk_tuple([a.args[i] for a in ats]) for i in range(n)], 'list')
        if fn == 'enumerate' and len(args) == 1 and ats[0] is not None and ats[0].kind in ('list', 'tuple'):
            return mk_tuple([mk_tuple([Term.num(i), x]) for i, x in enumerate(ats[0].args)], 'list')
        for a in ats:
            # zip(A if c else B, ...) == zip(A, ...) if c else zip(B, ...)   (literal arms: the result is a literal)
            if a is not None and a.kind == 'ite' and all(
                    x.single_atom() is not None and x.single_atom().kind in ('list', 'tuple') for x in a.args[1:]):
                c = a.args[0]
                ca = c.single_atom()
                if ca is None or ca.kind != 'and':
                    return mk_ite(c, mk_call(fn, [assume(x, {c.key: True}) for x in args]),
                                  mk_call(fn, [assume(x, {c.key: False}) for x in args]))
    if fn == 'len' and len(args) == 1:
        n_ = _elementwise_len(args[0])
        if n_ is not None:
            return n_
        at = args[0].single_atom()
        if at is not None and at.kind in ('tuple', 'list'):
            return Term.num(len(at.args))
        if at is not None and at.kind == 'call' and at.args[0] in ('zeros', 'ones', 'empty', 'full'):
            # len(np.zeros((n, m))) == n
            shp = at.args[1][0] if at.args[1] else dict(at.args[2]).get('shape')
            if shp is not None:
                sa = shp.single_atom()
                if sa is not None and sa.kind == 'tuple' and sa.args:
                    return sa.args[0]
                if sa is None or sa.kind not in ('tuple', 'list', 'attr', 'call', 'sub', 'sym', 'ite'):
                    return shp
    return Term.of(Atom('call', fn, tuple(args), kwargs))


EXACT_MODE = [False]   # rules may assume constructor-asserted divisibility (C20): q//d == q/d


def _int_ratio(t):
    """single monomial whose atoms are all integer-valued (any exponents)"""
    mono = t.monomial()
    if mono is None:
        return False
    c, m = mono
    for a, e in m:
        if not is_integer(Term.of(a)):
            return False
    return True


def _round_half_even(c):
    fl = math.floor(c)
    d = c - fl
    if d < F(1, 2):
        return fl
    if d > F(1, 2):
        return fl + 1
    return fl if fl % 2 == 0 else fl + 1


FULL_SLICE_KEY = None


def _norm_index(idx):
    """x[a, :] == x[a];  x[(a,)] == x[a]"""
    global FULL_SLICE_KEY
    if FULL_SLICE_KEY is None:
        FULL_SLICE_KEY = mk_slice(NONE, NONE, NONE).key
    ia = idx.single_atom()
    if ia is not None and ia.kind == 'tuple':
        items = list(ia.args)
        while len(items) > 1 and items[-1].key == FULL_SLICE_KEY:
            items.pop()
        if len(items) == 1:
            return items[0]
        if len(items) != len(ia.args):
            return mk_tuple(items)
    return idx


def _item_of_elementwise(t, idx, depth=0):
    """item `idx` of an element-wise combination of counting arrays np.array(range(n)) and scalars: the combination of the
    items (the item of np.array(range(n)) at position i is i).  None when t is not of that form."""
    if depth > 6 or _elementwise_len(t) is None:
        return None
    ok = [True]

    def fn(a):
        if a.kind == 'call' and a.args[0] == 'array' and a.args[1]:
            ia = a.args[1][0].single_atom()
            if ia is not None and ia.kind == 'call' and ia.args[0] == 'range' and len(ia.args[1]) == 1 and not ia.args[2]:
                return idx
        if a.kind == 'seq':
            return a.args[0] + a.args[1] * idx
        return None
    r = subst(t, fn)
    if any(x.kind == 'seq' or (x.kind == 'call' and x.args[0] == 'array') for x in all_atoms(r).values()):
        return None
    return r


def mk_sub(base, idx):
    """select(base, idx) with store/tuple simplification."""
    base, idx = lift(base), _norm_index(lift(idx))
    if idx.key == FULL_SLICE_KEY:
        return base                 # x[:] has the same value as x
    ia_ = idx.single_atom()
    if ((ia_ is not None and ia_.kind == 'idx') or (idx.const() is not None and idx.const() >= 0 and idx.const().denominator == 1)) \
            and (base.single_atom() is None or base.single_atom().kind == 'call'):
        it_ = _item_of_elementwise(base, idx)
        if it_ is not None:
            return it_
    if ia_ is not None and ia_.kind == 'slice' and _isnone(ia_.args[1]) and _isnone(ia_.args[2]) and not _isnone(ia_.args[0]) \
            and ia_.args[0].const() is None and _numeric_like(ia_.args[0]) and is_positive(-ia_.args[0]):
        # x[-L:] with L > 0 is the last L items, or all of x when it has fewer: x[max(len(x) - L, 0):]
        return mk_sub(base, mk_slice(mk_call('max', [mk_call('len', [base]) + ia_.args[0], Term.num(0)]), NONE, NONE))
    at = base.single_atom()
    if at is not None and at.kind in ('replicate', 'store', 'ite') and _replicate_len(base) is not None:
        ia2_ = idx.single_atom()
        if ia2_ is None or ia2_.kind not in ('slice', 'tuple'):
            r_ = _replicate_item(base, idx)
            if r_ is not None:
                return r_
    if at is not None and at.kind == 'call' and at.args[0] in ('min', 'max') and len(at.args[1]) == 2 and not at.args[2] \
            and idx.const() is not None and idx.const().denominator == 1:
        # element-wise minimum / maximum (np.clip) of a short literal array and a scalar: the item is the min / max of the item
        def arr_item(t_):
            ta_ = t_.single_atom()
            if ta_ is not None and ta_.kind in ('list', 'tuple') and -len(ta_.args) <= idx.const() < len(ta_.args):
                return ta_.args[int(idx.const())]
            if ta_ is not None and ta_.kind == 'call' and ta_.args[0] in ('min', 'max', 'array') and ta_.args[1]:
                r_ = mk_sub(t_, idx)
                ra_ = r_.single_atom()
                if not (ra_ is not None and ra_.kind == 'sub' and ra_.args[0].key == t_.key):
                    return r_
            return None
        a0_, a1_ = at.args[1]
        i0_, i1_ = arr_item(a0_), arr_item(a1_)
        if i0_ is not None and i1_ is None and _numeric_like(a1_) and a1_.single_atom() is None or (i0_ is not None and i1_ is None and (
                a1_.const() is not None or (a1_.single_atom() is not None and a1_.single_atom().kind in ('attr', 'sym')))):
            return mk_call(at.args[0], [i0_, a1_])
        if i1_ is not None and i0_ is None and (a0_.const() is not None or (a0_.single_atom() is not None and
                                                                            a0_.single_atom().kind in ('attr', 'sym'))):
            return mk_call(at.args[0], [a0_, i1_])
    if at is not None and at.kind == 'record':
        c_ = idx.const()
        if c_ is not None and c_.denominator == 1 and -len(at.args[1]) <= c_ < len(at.args[1]):
            return at.args[1][int(c_)][1]
    if at is not None and at.kind == 'comp' and at.args[0] == 'list' and len(at.args) >= 4 and len(at.args[2]) == 1 \
            and isinstance(at.args[3], str):
        # [E(x) for x in IT][p]  ==  E(IT[p])   (one generator, no filter, a scalar non-negative position)
        ga_ = at.args[2][0].single_atom()
        ia3_ = idx.single_atom()
        pc_ = idx.const()
        vid0_ = at.args[3] + ':0'
        uses_idx_ = any(x.kind == 'idx' and x.args == (vid0_,) for x in all_atoms(at.args[1]).values())
        if ga_ is not None and ga_.kind == 'tuple' and len(ga_.args) == 1 and (ia3_ is None or ia3_.kind not in ('slice', 'tuple')) \
                and (pc_ is None or pc_ >= 0 or not uses_idx_) and not _isnone(idx):
            vid_ = at.args[3] + ':0'
            pos_ = idx

            def item_(x):
                if x.kind == 'idx' and x.args == (vid_,):
                    return pos_
                if x.kind == 'elem' and len(x.args) == 2 and x.args[1] == vid_:
                    return mk_sub(x.args[0], pos_)
                if x.kind == 'key' and x.args and x.args[-1] == vid_:
                    raise KeyError
                return None
            try:
                return subst(at.args[1], item_)
            except KeyError:
                pass
    if at is not None:
        if at.kind in ('tuple', 'list'):
            c = idx.const()
            if c is not None and c.denominator == 1 and -len(at.args) <= c < len(at.args):
                return at.args[int(c)]
        if at.kind == 'call' and at.args[0] == 'T' and len(at.args[1]) == 1 and not at.args[2] and ia_ is not None and \
                ia_.kind == 'tuple' and len(ia_.args) == 2 and ia_.args[0].key == FULL_SLICE_KEY and \
                ia_.args[1].single_atom() is not None and ia_.args[1].single_atom().kind == 'slice':
            # x.T[:, a:b] == x[a:b].T   (x.T is the two-dimensional transpose throughout setigen)
            return mk_call('T', [mk_sub(at.args[1][0], ia_.args[1])])
        if at.kind == 'call' and at.args[0] == 'shape' and len(at.args[1]) == 1 and not at.args[2] and idx.const() in (0, 1):
            xa_ = at.args[1][0].single_atom()
            if xa_ is not None and xa_.kind == 'call' and xa_.args[0] == 'T' and len(xa_.args[1]) == 1:
                return mk_sub(mk_call('shape', [xa_.args[1][0]]), Term.num(1 - idx.const()))
        if at.kind == 'call' and at.args[0] in ('sort', 'sorted') and len(at.args[1]) == 1 and not at.args[2]:
            # sorted([a, b])[0] == min(a, b), [1] == max(a, b)
            la_ = at.args[1][0].single_atom()
            c_ = idx.const()
            if la_ is not None and la_.kind in ('list', 'tuple') and len(la_.args) == 2 and c_ in (0, 1, -1, -2):
                return mk_call('min' if c_ in (0, -2) else 'max', list(la_.args))
        if at.kind == 'str' and isinstance(at.args[0], str):
            # a character / constant slice of a text literal
            c = idx.const()
            if c is not None and c.denominator == 1 and -len(at.args[0]) <= c < len(at.args[0]):
                return lift(at.args[0][int(c)])
        if at.kind in ('tuple', 'list'):
            # a constant slice of a literal sequence is the literal sub-sequence
            sl = idx.single_atom()
            if sl is not None and sl.kind == 'slice':
                parts = []
                for x in sl.args:
                    if _isnone(x):
                        parts.append(None)
                    else:
                        cx = x.const()
                        if cx is None or cx.denominator != 1:
                            parts = None
                            break
                        parts.append(int(cx))
                if parts is not None:
                    return mk_tuple(list(at.args)[slice(*parts)], at.kind)
        if at.kind == 'store':
            b, i, v = at.args
            if i.key == idx.key:
                return v
            if _definitely_distinct(i, idx):
                return mk_sub(b, idx)
        if at.kind == 'dict':
            for k, v in at.args:
                if k.key == idx.key:
                    return v
        if at.kind == 'ite':
            return mk_ite(at.args[0], mk_sub(at.args[1], idx), mk_sub(at.args[2], idx))
        if at.kind == 'sub' and _pure_newaxis(at.args[1]) and idx.single_atom() is not None and idx.single_atom().kind == 'tuple':
            # X[:, None][:, :, ::-1]  ==  X[:, None, ::-1]: an index applied after axes were only ADDED is applied in place
            # (the new axes themselves may only be taken whole)
            i1 = at.args[1].single_atom()
            items1 = list(i1.args) if i1 is not None and i1.kind == 'tuple' else [at.args[1]]
            items2 = list(idx.single_atom().args)
            if all(x.single_atom() is not None and x.single_atom().kind == 'slice' for x in items2):
                out_, ok_ = [], True
                for k_, x1 in enumerate(items1):
                    x2 = items2[k_] if k_ < len(items2) else None
                    if _isnone(x1):
                        if x2 is not None and x2.key != FULL_SLICE_KEY:
                            ok_ = False
                        out_.append(x1)
                    else:
                        out_.append(x2 if x2 is not None else x1)
                out_ += items2[len(items1):]
                if ok_:
                    return mk_sub(at.args[0], mk_tuple(out_))
        if at.kind == 'sub':
            # (X[a:])[i] == X[a + i]   for a constant a >= 0 and an index i >= 0
            sl = at.args[1].single_atom()
            if sl is not None and sl.kind == 'slice' and _isnone(sl.args[2]):
                # (whatever the stop: a loop index is a position inside the slice, or the access raises)
                a0 = F(0) if _isnone(sl.args[0]) else sl.args[0].const()
                if a0 is not None and a0 >= 0 and a0.denominator == 1 and idx.single_atom() is not None and \
                        idx.single_atom().kind == 'idx':
                    return mk_sub(at.args[0], Term.num(a0) + idx)
            s2 = idx.single_atom()
            if sl is not None and sl.kind == 'slice' and _isnone(sl.args[1]) and _isnone(sl.args[2]) and s2 is not None \
                    and s2.kind == 'slice' and _isnone(s2.args[2]) and s2.args[0].const() == 0 and not _isnone(s2.args[1]) \
                    and ge0(sl.args[0]) and ge0(s2.args[1]):
                # (X[a:])[:n] == X[a:a+n]   for a >= 0, n >= 0
                return mk_sub(at.args[0], mk_slice(sl.args[0], sl.args[0] + s2.args[1], NONE))
            if sl is not None and sl.kind == 'slice' and _isnone(sl.args[1]) and _isnone(sl.args[2]) and s2 is not None \
                    and s2.kind == 'slice' and _isnone(s2.args[2]) and ge0(sl.args[0]) and not _isnone(s2.args[0]) and ge0(s2.args[0]):
                # (X[a:])[b:n] == X[a+b : a+n]   for a, b >= 0 (n >= 0 or open)
                hi_ = NONE if _isnone(s2.args[1]) else (sl.args[0] + s2.args[1] if ge0(s2.args[1]) else None)
                if hi_ is not None:
                    return mk_sub(at.args[0], mk_slice(sl.args[0] + s2.args[0], hi_, NONE))
            if sl is not None and sl.kind == 'slice' and _isnone(sl.args[2]):
                # (X[a:b])[i] == X[a + i]   for constants 0 <= a, 0 <= i < b - a
                a0, b0, i0 = sl.args[0].const(), (None if _isnone(sl.args[1]) else sl.args[1].const()), idx.const()
                if a0 is not None and i0 is not None and a0 >= 0 and i0 >= 0 and a0.denominator == 1 and i0.denominator == 1 \
                        and (_isnone(sl.args[1]) or (b0 is not None and i0 < b0 - a0)):
                    return mk_sub(at.args[0], Term.num(a0 + i0))
        if at.kind == 'call' and at.args[0] == 'mut.append' and len(at.args[1]) == 2:
            # (L + [v])[len(L)] is v ; (L + [v])[k] for a constant k >= 0 below a literal L's length is L[k]
            L, v = at.args[1]
            if idx.key == mk_call('len', [L]).key:
                return v
        if at.kind == 'call' and at.args[0] == 'meshgrid' and len(at.args[1]) == 2 and not at.args[2]:
            k = idx.const()
            if k == 0:
                return mk_call('tile_rows', [_strip_array(at.args[1][0]), mk_call('size', [at.args[1][1]])])
            if k == 1:
                return mk_call('tile_cols', [_strip_array(at.args[1][1]), mk_call('size', [at.args[1][0]])])
        if at.kind == 'call' and at.args[0] == 'shape' and len(at.args[1]) == 1:
            k = idx.const()
            if k is not None and k.denominator == 1 and k >= 0:
                d = shape_dim(at.args[1][0], int(k))
                if d is not None:
                    return d
    return Term.of(Atom('sub', base, idx))


def shape_dim(arr, k):
    """k-th dimension of an array term where it follows from the constructor / reshape / a leading-slice"""
    a = arr.single_atom()
    if a is None:
        # acc = zeros(s); acc += x : numpy's in-place addition keeps (and enforces) the accumulator's shape.
        # The interpreter writes the accumulation as the sum zeros(s) + x + ..., so the dimension of such a
        # sum is the constructor's.
        for m, c in arr.p.items():
            if len(m) == 1 and m[0][1] == 1 and c == 1:
                x = m[0][0]
                if x.kind == 'call' and x.args[0] in ('zeros', 'empty') and x.args[1]:
                    d = shape_dim(Term.of(x), k)
                    if d is not None:
                        return d
        # a single product: the shape of its one array factor of known shape (the other factors are scalars)
        if len(arr.p) == 1:
            (m, c), = arr.p.items()
            ds = [shape_dim(Term.of(x), k) for x, _ in m]
            ds = [d for d in ds if d is not None]
            if len(ds) == 1:
                return ds[0]
        return None
    if a.kind == 'call' and a.args[0] in ('fft', 'ifft', 'fftshift', 'ifftshift', 'abs', 'real', 'imag', 'conj', 'astype', 'copy') \
            and a.args[1] and not any(k_ == 'n' for k_, _ in a.args[2]):
        return shape_dim(a.args[1][0], k)
    if a.kind == 'ite':
        d1_, d2_ = shape_dim(a.args[1], k), shape_dim(a.args[2], k)
        if d1_ is not None and d2_ is not None:
            return d1_ if d1_.key == d2_.key else mk_ite(a.args[0], d1_, d2_)
        return None
    if a.kind == 'call' and a.args[0] == 'concatenate' and a.args[1] and k in (0, 1):
        # concatenate(A, axis=1) of a 3-d array A iterates its first axis and joins the 2-d items side by side
        inner = a.args[1][0]
        ia = inner.single_atom()
        kw = dict(a.args[2]) if len(a.args) > 2 else {}
        ax = kw.get('axis')
        if (ia is None or ia.kind not in ('tuple', 'list')) and ax is not None and ax.const() == 1:
            d0, d1, d2 = shape_dim(inner, 0), shape_dim(inner, 1), shape_dim(inner, 2)
            if d0 is not None and d1 is not None and d2 is not None:
                return d1 if k == 0 else d0 * d2
    if a.kind == 'call' and a.args[0] in ('zeros', 'empty', 'ones', 'full') and a.args[1]:
        sa = a.args[1][0].single_atom()
        if sa is not None and sa.kind in ('tuple', 'list') and k < len(sa.args):
            return sa.args[k]
    if a.kind == 'call' and a.args[0] == 'reshape' and len(a.args[1]) >= 2:
        sa = a.args[1][1].single_atom()
        if sa is not None and sa.kind in ('tuple', 'list') and k < len(sa.args):
            d = sa.args[k]
            if d.const() != -1:
                return d
    if a.kind == 'sub':
        base, idx = a.args
        ia = idx.single_atom()
        items = list(ia.args) if (ia is not None and ia.kind == 'tuple') else [idx]
        if any(x.single_atom() is None or x.single_atom().kind != 'slice' for x in items):
            return None          # integer / fancy indices change the rank
        full = mk_sub(mk_call('shape', [base]), Term.num(k))
        if k >= len(items):
            return full
        lo, hi, st = items[k].single_atom().args
        if lo.const() == 0 and _isnone(st):
            if _isnone(hi):
                return full
            if hi.const() is not None and hi.const() < 0:
                # x[:-c]: all but the last c items
                return mk_call('max', [full + hi, Term.num(0)])
            # a prefix of length hi: exact when hi is (shape // c) * c  (never exceeds the dimension)
            q = hi / full if False else None
            for m, c in hi.p.items():
                pass
            ha = [x for x in hi.atoms() if x.kind == 'call' and x.args[0] == 'floordiv' and x.args[1][0].key == full.key]
            if len(ha) == 1 and (hi - Term.of(ha[0]) * ha[0].args[1][1]).is_zero():
                return hi
            return mk_call('min', [hi, full])
    return None


def mk_in(x, cont):
    """x in cont, simplified through store chains / dict literals / conditionals."""
    x, cont = lift(x), lift(cont)
    at = cont.single_atom()
    if at is not None:
        if at.kind == 'store':
            b, i, v = at.args
            if i.key == x.key:
                return TRUE
            if _definitely_distinct(i, x):
                return mk_in(x, b)
        if at.kind == 'ite':
            return mk_ite(at.args[0], mk_in(x, at.args[1]), mk_in(x, at.args[2]))
        if at.kind == 'call' and at.args[0].startswith('mut.') and at.args[0] != 'mut.update':
            pass
    return mk_cmp('in', x, cont)


def _definitely_distinct(i, j):
    ai, aj = i.single_atom(), j.single_atom()
    if ai is not None and aj is not None and ai.kind == 'str' and aj.kind == 'str':
        return ai.args[0] != aj.args[0]
    ci, cj = i.const(), j.const()
    if ci is not None and cj is not None:
        return ci != cj
    return False


def mk_store(base, idx, val):
    base, idx, val = lift(base), lift(idx), lift(val)
    ba = base.single_atom()
    if ba is not None and ba.kind == 'list':
        # an item store into a literal list at a constant position is the literal with that item replaced
        c = idx.const()
        if c is not None and c.denominator == 1 and -len(ba.args) <= c < len(ba.args):
            items = list(ba.args)
            items[int(c)] = val
            return mk_tuple(items, 'list')
    return Term.of(Atom('store', base, idx, val))


def mk_attr(base, name):
    return Term.of(Atom('attr', lift(base), name))


def mk_slice(lo, hi, step):
    lo, hi, step = lift(lo), lift(hi), lift(step)
    sc = step.const()
    if _isnone(lo) and (_isnone(step) or (sc is not None and sc > 0)):
        lo = Term.num(0)            # x[:k] == x[0:k]
    if sc == 1:
        step = NONE
    return Term.of(Atom('slice', lo, hi, step))


def mk_tuple(items, kind='tuple'):
    return Term.of(Atom(kind, *[lift(i) for i in items]))


# ---------------------------------------------------------------------------
# substitution / traversal
# ---------------------------------------------------------------------------

def subst(t, fn, _memo=None):
    """Rebuild t bottom-up, replacing each atom `a` by fn(a') (a Term or None) where a' is
    the atom with already-substituted children.  Re-normalises through the mk_* constructors."""
    if _memo is None:
        _memo = {}
    if not isinstance(t, Term):
        return t
    if t.key in _memo:
        return _memo[t.key]
    res = Term()
    for m, c in t.p.items():
        x = Term.num(c)
        for a, e in m:
            x = x * _subst_atom(a, fn, _memo).pow(e)
        res = res + x
    res = canon_seq(res)
    _memo[t.key] = res
    return res


def as_seq(t):
    """(start, step, n) if t is affine in exactly one seq atom: A + B*seq(s,d,n)."""
    seqs = [a for a in t.atoms() if a.kind == 'seq']
    if len(seqs) != 1:
        return None
    sa = seqs[0]
    A = Term()
    B = Term()
    for m, c in t.p.items():
        exps = [e for a, e in m if a == sa]
        if not exps:
            A = A + Term({m: c})
        elif exps == [1]:
            B = B + Term({tuple((a, e) for a, e in m if a != sa): c})
        else:
            return None
    s, d, n = sa.args
    return (A + B * s, B * d, n)


def mk_seq(start, step, n):
    return Term.of(Atom('seq', lift(start), lift(step), lift(n)))


def canon_seq(t):
    """A term affine in one seq atom is rewritten as a single seq atom (canonical form)."""
    if len(t.p) == 1:
        (m, c), = t.p.items()
        if c == 1 and len(m) == 1:
            return t
    s = as_seq(t)
    if s is None:
        return _canon_expanded(t)
    return mk_seq(*s)


def _pure_newaxis(idx):
    """an index made only of None and full slices: it adds axes, it selects nothing"""
    ia = idx.single_atom()
    items = list(ia.args) if (ia is not None and ia.kind == 'tuple') else [idx]
    for x in items:
        xa = x.single_atom()
        if _isnone(x):
            continue
        if xa is not None and xa.kind == 'slice' and all(_isnone(y) or (k_ == 0 and y.const() == 0) for k_, y in enumerate(xa.args)):
            continue
        return False
    return True


def _canon_expanded(t):
    """A + B*S[newaxis-index], S affine in one sequence  ==  (A + B*S)[newaxis-index]: arithmetic with scalars commutes
    with adding axes, so `(t_idx + 1)[None, :]` and `t_idx[None, :] + 1` have one normal form."""
    subs = [a for a in t.atoms() if a.kind == 'sub' and _pure_newaxis(a.args[1]) and as_seq(a.args[0]) is not None]
    if len(subs) != 1:
        return t
    sa = subs[0]
    A, B = Term(), Term()
    for m, c in t.p.items():
        exps = [e for a, e in m if a == sa]
        if not exps:
            A = A + Term({m: c})
        elif exps == [1]:
            B = B + Term({tuple((a, e) for a, e in m if a != sa): c})
        else:
            return t
    # A and B must be scalars (no array atoms): only then does the arithmetic commute with the reshape
    for x in list(all_atoms(A).values()) + list(all_atoms(B).values()):
        if x.kind in ('seq', 'sub') and x is not sa and x.kind == 'seq':
            return t
    inner = canon_seq(A + B * sa.args[0])
    return Term.of(Atom('sub', inner, sa.args[1]))


def canon(t):
    return subst(t, lambda a: None)


def canon_comps(t):
    """Comprehension variables are bound: every comprehension's own loop identifiers (line based, `C12:4:k`) are renamed to
    `C@d:k`, d = nesting depth counted from the innermost comprehension, so that two comprehensions that differ only in
    where they stand in the source are the same term."""
    import re

    def fn(a):
        if a.kind != 'comp' or len(a.args) < 4 or not isinstance(a.args[3], str) or a.args[3].startswith('C@'):
            return None
        own = a.args[3]
        inner = Term.of(Atom('tuple', a.args[1], *a.args[2]))
        depth = 0
        for x in all_atoms(inner).values():
            for y in x.args:
                if isinstance(y, str) and y.startswith('C@'):
                    depth = max(depth, int(re.match(r'C@(\d+)', y).group(1)) + 1)
        new_own = f'C@{depth}'

        def ren(x):
            if x.kind in ('elem', 'idx', 'key', 'loopvar', 'after') and x.args and isinstance(x.args[-1], str) \
                    and x.args[-1].startswith(own + ':'):
                return Term.of(Atom(x.kind, *(x.args[:-1] + (new_own + x.args[-1][len(own):],))))
            if x.kind == 'comp' and len(x.args) > 3 and x.args[3] == own:
                return Term.of(Atom('comp', x.args[0], x.args[1], x.args[2], new_own))
            return None
        elt = subst(a.args[1], ren)
        gens = tuple(subst(g, ren) for g in a.args[2])
        return Term.of(Atom('comp', a.args[0], elt, gens, new_own))
    return subst(t, fn)


def _cmp_canon(t):
    """rewritings that hold over the reals and are applied for COMPARISON only (the stored terms keep the spelling, which the
    kind rules read):  a // b  ==  floor(a / b)"""
    def fn(a):
        if a.kind == 'call' and a.args[0] == 'floordiv' and len(a.args[1]) == 2 and not a.args[2]:
            return mk_call('floor', [a.args[1][0] / a.args[1][1]])
        if a.kind == 'call' and a.args[0] == 'len' and len(a.args[1]) == 1 and not a.args[2]:
            # len(x) of something that is not a literal container is x.shape[0]: one spelling for comparison
            xa = a.args[1][0].single_atom()
            if xa is None or xa.kind not in ('list', 'tuple', 'dict', 'str', 'comp', 'set'):
                return mk_sub(mk_call('shape', [a.args[1][0]]), Term.num(0))
        return None
    if not any(x.kind == 'call' and x.args[0] in ('floordiv', 'len') for x in all_atoms(t).values()):
        return t
    return subst(t, fn)


def _rename_new(t):
    """objects constructed during the analysis are numbered in construction order (`new(C, '#5')`); within one compared
    term they are renumbered by rank per class, so that constructing an unrelated object earlier -- or the same object on two
    exclusive paths -- does not change the name"""
    ids = {}
    for a in all_atoms(t).values():
        if a.kind == 'new' and len(a.args) == 2 and isinstance(a.args[1], str) and a.args[1].startswith('#'):
            try:
                ids.setdefault(a.args[0], set()).add(int(a.args[1][1:]))
            except ValueError:
                pass
    if not ids:
        return t
    rank = {(c, f'#{k}'): f'#r{i}' for c, ks in ids.items() for i, k in enumerate(sorted(ks))}

    def fn(a):
        if a.kind == 'new' and (a.args[0], a.args[1]) in rank:
            return Term.of(Atom('new', a.args[0], rank[(a.args[0], a.args[1])]))
        return None
    return subst(t, fn)


def rename_loops(t, kinds='LCT'):
    """Loop / try identifiers are line based (L46, C12:4:0, T128); rename them by rank so that a
    reference transcription with different line numbers compares equal."""
    import re
    ids = set()
    for a in all_atoms(t).values():
        if a.kind in ('after', 'loopvar', 'idx', 'elem', 'key', 'exc', 'partial'):
            for x in a.args:
                if isinstance(x, str) and re.match(r'^[LCT]\d', x) and x[0] in kinds:
                    ids.add(x)
                elif isinstance(x, str):
                    for m in re.findall(r"'([LCT]\d[\d:]*)'", x):
                        if m[0] in kinds:
                            ids.add(m)
    if not ids:
        return t

    def rank_key(i):
        nums = [int(n) for n in re.findall(r'\d+', i)]
        return (i[0], nums)
    order = {i: f'{i[0]}#{k}' for k, i in enumerate(sorted(ids, key=rank_key))}

    def fn(a):
        if a.kind in ('after', 'loopvar', 'idx', 'elem', 'key', 'exc', 'partial'):
            def ren(x):
                if not isinstance(x, str):
                    return x
                if x in order:
                    return order[x]
                return re.sub(r"'([LCT]\d[\d:]*)'", lambda m: "'" + order.get(m.group(1), m.group(1)) + "'", x)
            new = tuple(ren(x) for x in a.args)
            if new != a.args:
                return Term.of(Atom(a.kind, *new))
        return None
    return subst(t, fn)


def _subst_atom(a, fn, memo):
    k = a.kind
    s = lambda x: subst(x, fn, memo)
    if k in ('sym', 'str', 'none', 'bool', 'num', 'div0'):
        new = Term.of(a)
    elif k == 'call':
        f, args, kw = a.args
        new = mk_call(f, [s(x) for x in args], [(n, s(v)) for n, v in kw])
    elif k == 'ite':
        new = mk_ite(s(a.args[0]), s(a.args[1]), s(a.args[2]))
    elif k == 'cmp':
        new = mk_cmp(a.args[0], s(a.args[1]), s(a.args[2]))
    elif k == 'not':
        new = mk_not(s(a.args[0]))
    elif k == 'and':
        new = mk_and([s(x) for x in a.args])
    elif k == 'sub':
        new = mk_sub(s(a.args[0]), s(a.args[1]))
    elif k == 'attr':
        new = mk_attr(s(a.args[0]), a.args[1])
    elif k == 'store':
        new = mk_store(s(a.args[0]), s(a.args[1]), s(a.args[2]))
    elif k in ('tuple', 'list'):
        new = mk_tuple([s(x) for x in a.args], k)
    elif k == 'slice':
        new = mk_slice(*[s(x) for x in a.args])
    elif k == 'poly':
        new = s(a.args[0])
    elif k == 'pow':
        new = s(a.args[0]).pow(a.args[1])
    elif k == 'dict':
        new = Term.of(Atom('dict', *[(s(kk), s(v)) for kk, v in a.args]))
    else:
        def deep(x):
            if isinstance(x, Term):
                return s(x)
            if isinstance(x, tuple):
                return tuple(deep(y) for y in x)
            return x
        new = Term.of(Atom(k, *[deep(x) for x in a.args]))
    na = new.single_atom()
    if na is not None:
        r = fn(na)
        if r is not None:
            return r
    return new


def all_atoms(t, acc=None):
    """Every atom occurring anywhere inside t (deep)."""
    if acc is None:
        acc = {}
    if isinstance(t, Term):
        for a in t.atoms():
            if a.key not in acc:
                acc[a.key] = a
                for x in a.args:
                    _walk_arg(x, acc)
    return acc


def _walk_arg(x, acc):
    if isinstance(x, Term):
        all_atoms(x, acc)
    elif isinstance(x, tuple):
        for y in x:
            _walk_arg(y, acc)


_COND_MEMO = {}


def _conditions_memo(t):
    k = t.key
    r = _COND_MEMO.get(k)
    if r is None:
        if len(_COND_MEMO) > 200000:
            _COND_MEMO.clear()
        r = _COND_MEMO[k] = frozenset(conditions(t))
    return r


def conditions(t):
    """Condition terms used by Ite atoms inside t (deep), as a dict key -> Term (basic conds:
    'and'/'not' are decomposed)."""
    out = {}
    for a in all_atoms(t).values():
        if a.kind == 'ite':
            _basic_conds(a.args[0], out)
    return out


def _basic_conds(c, out):
    at = c.single_atom()
    if at is not None and at.kind == 'not':
        _basic_conds(at.args[0], out)
    elif at is not None and at.kind == 'and':
        for x in at.args:
            _basic_conds(x, out)
    else:
        out[c.key] = c


def assume(t, assignment, conds=None):
    """Substitute truth values for basic conditions (dict cond-term-key -> bool) and re-simplify.
    conds (key -> Term of the assigned conditions): type tests implied by the assigned ones are decided too
    (isinstance(x, tuple) holds  =>  isinstance(x, (list, tuple)) holds;  the latter fails  =>  the former fails)."""
    facts = []
    if conds:
        for k, v in assignment.items():
            info = _isinstance_info(conds[k]) if k in conds else None
            if info is not None and info[1]:
                facts.append((info[0], info[1], v))

    # x known to be complex already (np.iscomplexobj(x) assumed true): x.astype(complex) has the same value as x
    cplx = set()
    for k_, v_ in assignment.items():
        if v_ and isinstance(k_, tuple):
            pass
    if conds:
        for k_, v_ in assignment.items():
            ca_ = conds[k_].single_atom() if k_ in conds else None
            if v_ and ca_ is not None and ca_.kind == 'call' and ca_.args[0] == 'iscomplexobj' and len(ca_.args[1]) == 1:
                cplx.add(ca_.args[1][0].key)

    def fn(a):
        tk = Term.of(a).key
        if tk in assignment:
            return TRUE if assignment[tk] else FALSE
        if cplx and a.kind == 'call' and a.args[0] == 'astype' and len(a.args[1]) == 1 and a.args[1][0].key in cplx:
            d_ = dict(a.args[2]).get('dtype')
            if d_ is not None and d_.single_atom() is not None and 'complex' in str(d_.single_atom().args[0]):
                return a.args[1][0]
        if facts and a.kind == 'call' and a.args[0] == 'isinstance':
            info = _isinstance_info(Term.of(a))
            if info is not None and info[1]:
                for subj, names, val in facts:
                    if subj != info[0]:
                        continue
                    if val and names <= info[1]:
                        return TRUE
                    if not val and info[1] <= names:
                        return FALSE
                    if not val and names < info[1]:
                        # not a B, so "an A or a B" means "an A"
                        ca = a.args[1][1].single_atom()
                        items = list(ca.args) if ca is not None and ca.kind == 'tuple' else None
                        if items:
                            rest = [x for x in items if not (x.single_atom() is not None and x.single_atom().kind in (
                                'builtin', 'ext', 'class') and str(x.single_atom().args[0]).split('.')[-1] in names)]
                            if rest and len(rest) < len(items):
                                return mk_call('isinstance', [a.args[1][0], rest[0] if len(rest) == 1 else mk_tuple(rest)])
        return None
    return subst(t, fn)


# ---------------------------------------------------------------------------
# three-valued comparison
# ---------------------------------------------------------------------------
EQUAL, DIFFERENT, UNDECIDED = 'EQUAL', 'DIFFERENT', 'UNDECIDED'


def _boolean(t):
    ta = t.single_atom()
    return ta is not None and ta.kind in ('and', 'not')


def compare(a, b, max_conds=8):
    """Three-valued comparison of two terms, eliminating Ite conditions by case analysis."""
    a, b = lift(a), lift(b)
    if a.key == b.key:
        return EQUAL, None
    a, b = canon_comps(a), canon_comps(b)                                  # comprehension variables are bound names
    a, b = _cmp_canon(a), _cmp_canon(b)
    if a.key == b.key:
        return EQUAL, None
    a, b = rename_loops(canon(a), 'LT'), rename_loops(canon(b), 'LT')     # loops / try blocks: stable statement order
    if a.key == b.key:
        return EQUAL, None
    if rename_loops(a, 'C').key == rename_loops(b, 'C').key:
        return EQUAL, None
    allc = {}
    budget = [4000]

    def local_conds(x, y):
        conds = {}
        conds.update(conditions(x))
        conds.update(conditions(y))
        if _boolean(x) or _boolean(y):
            # boolean combinations of the SAME atomic propositions are decided by their truth table (different atomic
            # propositions are left to the flat comparison and its decisiveness rules)
            pa, pb = {}, {}
            _basic_conds(x, pa)
            _basic_conds(y, pb)
            if set(pa) == set(pb):
                conds.update(pa)
            elif (x.key in (TRUE.key, FALSE.key) or y.key in (TRUE.key, FALSE.key)) and len(pa) + len(pb) <= 10:
                # satisfiability / validity of one boolean combination: its own truth table
                conds.update(pa)
                conds.update(pb)
                conds.pop(TRUE.key, None)
                conds.pop(FALSE.key, None)
        return conds

    def rec(x, y, asg):
        """Shannon expansion on one condition at a time (terms collapse quickly, so far fewer than 2^n leaves)"""
        if x.key == y.key:
            return EQUAL, None
        budget[0] -= 1
        if budget[0] < 0:
            return UNDECIDED, 'case analysis budget exhausted'
        conds = local_conds(x, y)
        # smallest condition first: a compound condition that contains another one is re-simplified (often folded)
        # once the inner one is decided, instead of being given a truth value the inner one contradicts
        keys = sorted((k for k in conds if k not in asg), key=lambda k: (len(k), k))
        if not keys:
            xa, xb = rename_loops(x, 'C'), rename_loops(y, 'C')     # comprehensions that survive this case
            v, w = _compare_flat(xa, xb)
            if v != EQUAL:
                case = {pretty(allc[k]): asg[k] for k in sorted(asg)}
                return v, {'case': case, 'code': pretty(xa), 'spec': pretty(xb), 'why': w}
            return EQUAL, None
        allc.update(conds)
        k = keys[0]
        worst, why = EQUAL, None
        for val in (True, False):
            asg2 = dict(asg)
            asg2[k] = val
            if _infeasible(asg2, allc):
                continue
            # sign facts of this case (d < 0 holds / fails) are available to the normaliser while the case is explored
            npush = 0
            for k_, v_ in asg2.items():
                ca_ = allc[k_].single_atom() if k_ in allc else None
                if ca_ is not None and ca_.kind == 'cmp' and ca_.args[0] in ('<', '==') and _numeric_like(ca_.args[1]) \
                        and ca_.args[2].const() == 0:
                    if ca_.args[0] == '<':
                        ASSUMED_GE0.append(-ca_.args[1] if v_ else ca_.args[1])
                        npush += 1
                    elif v_:
                        ASSUMED_GE0.extend([ca_.args[1], -ca_.args[1]])
                        npush += 2
            # (the whole assignment is re-applied: deciding k may re-create a condition that was decided earlier)
            try:
                v, w = rec(assume(x, asg2, allc), assume(y, asg2, allc), asg2)
            finally:
                if npush:
                    del ASSUMED_GE0[-npush:]
            if v == DIFFERENT:
                return v, w
            if v == UNDECIDED:
                worst, why = v, w
        return worst, why
    n0 = len(local_conds(a, b))
    if n0 > 24:
        return UNDECIDED, f'too many conditions ({n0})'
    return rec(a, b, {})


def exposed_syms(t):
    """names of sym atoms reachable without passing through an unmodelled (opaque, non-package) call"""
    out = set()

    def walk_t(x):
        for a in x.atoms():
            walk_a(a)

    def walk_arg(x):
        if isinstance(x, Term):
            walk_t(x)
        elif isinstance(x, tuple):
            for y in x:
                walk_arg(y)

    def walk_a(a):
        if a.kind == 'sym':
            out.add(a.args[0])
            return
        if a.kind == 'call' and a.args[0] not in MODELLED and a.args[0] not in PACKAGE_HEADS and a.args[0] not in STR_METHODS and not str(a.args[0]).startswith('mut.'):
            return
        for x in a.args:
            walk_arg(x)
    walk_t(t)
    return out


DISJOINT_TYPES = [{'slice'}, {'list'}, {'tuple'}, {'ndarray'}, {'str'}, {'dict'}, {'int'}, {'float'}, {'Quantity'}, {'PurePath'},
                  {'Waterfall'}, {'bytes'}]


def _isinstance_info(c):
    a = c.single_atom()
    if a is not None and a.kind == 'call' and a.args[0] == 'isinstance' and len(a.args[1]) == 2:
        names = set()
        for x in all_atoms(a.args[1][1]).values():
            if x.kind in ('builtin', 'ext', 'class'):
                names.add(str(x.args[0]).split('.')[-1])
        return a.args[1][0].key, names
    return None


def _infeasible(asg, conds):
    """two isinstance tests of the same value against disjoint builtin types cannot both hold"""
    true_tests = {}
    for k, v in asg.items():
        if not v:
            continue
        info = _isinstance_info(conds[k])
        if info is None:
            continue
        subj, names = info
        for other in true_tests.get(subj, []):
            groups_a = [i for i, g in enumerate(DISJOINT_TYPES) if g & names]
            groups_b = [i for i, g in enumerate(DISJOINT_TYPES) if g & other]
            if groups_a and groups_b and len(groups_a) == len([n for n in names]) and len(groups_b) == len([n for n in other]) \
                    and not (set(groups_a) & set(groups_b)):
                return True
        true_tests.setdefault(subj, []).append(names)
    # isinstance(x, A) holds but isinstance(x, (A, B)) does not: impossible
    for k, v in asg.items():
        if v:
            continue
        info = _isinstance_info(conds[k])
        if info is None:
            continue
        subj, names = info
        if any(t and t <= names for t in true_tests.get(subj, [])):
            return True
    return False


def _compare_flat(a, b):
    if a.key == b.key:
        return EQUAL, None
    d = a - b
    if d.is_zero():
        return EQUAL, None
    # unmatched atoms: those occurring (deep) in exactly one side
    aa, ab = all_atoms(a), all_atoms(b)
    only_a = [x for k, x in aa.items() if k not in ab]
    only_b = [x for k, x in ab.items() if k not in aa]
    # an input symbol that one side depends on directly (not merely inside an opaque call) and the other
    # side never mentions: the two are different functions of the inputs
    ea, eb = exposed_syms(a), exposed_syms(b)
    sa_all = {x.args[0] for x in aa.values() if x.kind == 'sym'}
    sb_all = {x.args[0] for x in ab.values() if x.kind == 'sym'}
    hidden = any(x.kind in ('after', 'loopvar', 'undef', 'partial') for x in list(aa.values()) + list(ab.values()))
    sha0 = {x.args[1][0].key for x in only_a if x.kind == 'call' and x.args[0] == 'shape' and x.args[1]}
    shb0 = {x.args[1][0].key for x in only_b if x.kind == 'call' and x.args[0] == 'shape' and x.args[1]}
    def _hidden_shape(x):
        return x.kind == 'call' and x.args[0] == 'shape' and x.args[1] and \
            any(y.kind in ('after', 'loopvar') for y in all_atoms(x.args[1][0]).values())
    def _leaves(only):
        keys = {x.key for x in only}
        out = []
        for x in only:
            kids = all_atoms(Term.of(x))
            if not any(k in keys for k in kids if k != x.key):
                out.append(x)
        return out
    def _shape_arg(x):
        if x.kind == 'sub' and x.args[0].single_atom() is not None:
            x = x.args[0].single_atom()
        return x.args[1][0].key if (x.kind == 'call' and x.args[0] == 'shape' and x.args[1]) else None
    for side, other_all in ((only_a, ab), (only_b, aa)):
        lv = _leaves(side)
        if lv and all(x.kind == 'after' for x in lv):
            return UNDECIDED, 'one side goes through the result of a loop that the other side expresses differently (not modelled)'
        other_shapes = {_shape_arg(y) for y in other_all.values()} - {None}
        if lv and all((_hidden_shape(x) or (x.kind == 'sub' and x.args[0].single_atom() is not None
                                            and _hidden_shape(x.args[0].single_atom())))
                      and _shape_arg(x) not in other_shapes for x in lv):
            # one side differs from the other only by reading the shape of a loop-carried array; whether the
            # other side's expression equals that shape is not modelled
            return UNDECIDED, 'the sides differ only through the shape of a loop-carried array (not modelled)'
    if not hidden and ((ea - sb_all) or (eb - sa_all)):
        return DIFFERENT, 'depends on different inputs: ' + ', '.join(sorted((ea - sb_all) | (eb - sa_all)))
    # array-shape algebra is not modelled: shape(u)[k] against an expression over shape(v) is not decisive
    sha = {x.args[1][0].key for x in only_a if x.kind == 'call' and x.args[0] == 'shape' and x.args[1]}
    shb = {x.args[1][0].key for x in only_b if x.kind == 'call' and x.args[0] == 'shape' and x.args[1]}
    for side, other in ((only_a, only_b), (only_b, only_a)):
        for x in side:
            if x.kind == 'call' and x.args[0] not in MODELLED and x.args[0] not in PACKAGE_HEADS and x.args[0] not in STR_METHODS and not str(x.args[0]).startswith('mut.'):
                # an opaque head is decisive only when the other side applies the SAME head (to other arguments)
                if not any(y.kind == 'call' and y.args[0] == x.args[0] and len(y.args[1]) == len(x.args[1])
                           for y in other):
                    return UNDECIDED, f'unmodelled function {x.args[0]} occurs on one side only'
    return DIFFERENT, 'normal forms differ: code - spec = ' + pretty(d)[:400]
