"""NONEDEF (E3+E9): nullness dataflow for parameters defaulting to None.  A report is made only under
Engler's contradiction trigger: the function itself tests `p is None` and its None-arm falls through
without rebinding p (so the author treats None as a legal value there), yet p is later dereferenced."""
import ast

DEREF_FUNCS = {'len', 'int', 'float', 'max', 'min', 'sum', 'abs', 'sorted', 'list', 'tuple', 'iter', 'range', 'enumerate', 'zip'}
DEREF_ATTR_FUNCS = {'max', 'min', 'amax', 'amin', 'sum', 'mean', 'std', 'array', 'asarray', 'sort', 'concatenate', 'round'}


def _is_none_test(test, name):
    """returns 'is' / 'isnot' / None for `name is None` / `name is not None`"""
    if isinstance(test, ast.Compare) and len(test.ops) == 1 and isinstance(test.left, ast.Name) and test.left.id == name \
            and isinstance(test.comparators[0], ast.Constant) and test.comparators[0].value is None:
        if isinstance(test.ops[0], (ast.Is, ast.Eq)):
            return 'is'
        if isinstance(test.ops[0], (ast.IsNot, ast.NotEq)):
            return 'isnot'
    if isinstance(test, ast.UnaryOp) and isinstance(test.op, ast.Not):
        r = _is_none_test(test.operand, name)
        return {'is': 'isnot', 'isnot': 'is'}.get(r)
    return None


def _terminates(stmts):
    return bool(stmts) and isinstance(stmts[-1], (ast.Return, ast.Raise, ast.Continue, ast.Break))


def _rebinds(stmts, name):
    for st in stmts:
        for n in ast.walk(st):
            if isinstance(n, ast.Name) and n.id == name and isinstance(n.ctx, ast.Store):
                return True
    return False


def _derefs(node, name):
    """dereferencing uses of `name` inside expression/statement `node` (not descending into nested defs)"""
    out = []
    for n in ast.walk(node):
        if isinstance(n, ast.Subscript) and isinstance(n.value, ast.Name) and n.value.id == name:
            out.append((n, 'subscript'))
        elif isinstance(n, ast.Attribute) and isinstance(n.value, ast.Name) and n.value.id == name:
            out.append((n, 'attribute access'))
        elif isinstance(n, ast.Call):
            f = n.func
            fname = f.id if isinstance(f, ast.Name) else (f.attr if isinstance(f, ast.Attribute) else None)
            ok = (isinstance(f, ast.Name) and fname in DEREF_FUNCS) or (isinstance(f, ast.Attribute) and fname in DEREF_ATTR_FUNCS)
            if ok and any(isinstance(a, ast.Name) and a.id == name for a in n.args):
                out.append((n, f'argument of {fname}()'))
        elif isinstance(n, (ast.For, ast.comprehension)) and isinstance(n.iter, ast.Name) and n.iter.id == name:
            out.append((n.iter, 'iteration'))
    return out


def analyse(fi):
    """yields (param, node, how, test_node) for dereferences of a may-be-None parameter under the trigger"""
    findings = []
    checked = []
    defaults = fi.defaults()
    cands = [p for p, d in defaults.items() if isinstance(d, ast.Constant) and d.value is None]
    # a parameter without default that the function itself tests against None is believed to be possibly None as well
    # (a helper that receives its caller's None-default parameter)
    for p in fi.all_params():
        if p not in cands and p not in ('self', 'cls') and any(
                isinstance(n, ast.If) and _is_none_test(n.test, p) is not None for n in ast.walk(fi.node)):
            cands.append(p)
    for p in cands:
        state = {'maybe': True, 'armed': None}

        def visit(stmts, maybe):
            for st in stmts:
                if not maybe:
                    return False
                if isinstance(st, ast.If):
                    kind = _is_none_test(st.test, p)
                    if kind is not None:
                        none_arm, other = (st.body, st.orelse) if kind == 'is' else (st.orelse, st.body)
                        checked.append((p, st))
                        reb = _rebinds(none_arm, p)
                        term = _terminates(none_arm)
                        if kind == 'is' and not reb and not term:
                            state['armed'] = st
                        # the non-None arm sees a non-None value; the None arm is visited with maybe=True
                        for s2 in none_arm:
                            for n, how in _derefs(s2, p):
                                if not reb:
                                    findings.append((p, n, how, st))
                        if term or reb:
                            maybe = False if (term or reb) and not _sets_none(other, p) else maybe
                            if term:
                                maybe = False
                            elif reb:
                                maybe = False
                        continue
                    # other tests: a truthiness test `if p:` also guards
                    if isinstance(st.test, ast.Name) and st.test.id == p:
                        visit(st.orelse, maybe)
                        continue
                    use_in_test = _derefs(st.test, p)
                    if state['armed'] is not None:
                        for n, how in use_in_test:
                            findings.append((p, n, how, state['armed']))
                    visit(st.body, maybe)
                    visit(st.orelse, maybe)
                    continue
                if isinstance(st, (ast.FunctionDef, ast.ClassDef)):
                    continue
                if isinstance(st, ast.Assign) and any(isinstance(t, ast.Name) and t.id == p for t in st.targets):
                    if state['armed'] is not None:
                        for n, how in _derefs(st.value, p):
                            findings.append((p, n, how, state['armed']))
                    maybe = False
                    return maybe
                if isinstance(st, (ast.For, ast.While, ast.With, ast.Try)):
                    hdr = st.iter if isinstance(st, ast.For) else (st.test if isinstance(st, ast.While) else None)
                    if hdr is not None and state['armed'] is not None:
                        for n, how in _derefs(ast.Expr(value=hdr), p):
                            findings.append((p, n, how, state['armed']))
                        if isinstance(st, ast.For) and isinstance(st.iter, ast.Name) and st.iter.id == p:
                            findings.append((p, st.iter, 'iteration', state['armed']))
                    for blk in ('body', 'orelse', 'finalbody'):
                        visit(getattr(st, blk, []) or [], maybe)
                    for h in getattr(st, 'handlers', []) or []:
                        visit(h.body, maybe)
                    continue
                if state['armed'] is not None:
                    for n, how in _derefs(st, p):
                        findings.append((p, n, how, state['armed']))
            return maybe
        visit(fi.node.body, True)
    return findings, checked


def _sets_none(stmts, name):
    for st in stmts:
        if isinstance(st, ast.Assign) and any(isinstance(t, ast.Name) and t.id == name for t in st.targets) and \
                isinstance(st.value, ast.Constant) and st.value.value is None:
            return True
    return False
