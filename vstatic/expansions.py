"""Derived-attribute expansion (E4): the abstract value of `self.X` at the exit of
`__init__`, expressed over base attributes, for attributes that no other function stores."""
import ast

from . import terms as T
from .terms import Term, Atom, sym
from .sva import Interp
from .model import PKG


class ClassExpansions:
    def __init__(self, prog, max_depth=4):
        self.prog = prog
        self.max_depth = max_depth
        self.cache = {}       # class qual -> (derived dict name->Term, base set)
        self._stores = None

    def _store_sites(self):
        """attr name -> set of function quals that store it (by attribute name, any receiver)."""
        if self._stores is not None:
            return self._stores
        out = {}
        for fi in self.prog.functions.values():
            if isinstance(fi.node, ast.Lambda):
                continue
            for n in ast.walk(fi.node):
                name = None
                if isinstance(n, ast.Attribute) and isinstance(n.ctx, (ast.Store, ast.Del)):
                    name = n.attr
                elif isinstance(n, ast.Call) and isinstance(n.func, ast.Name) and n.func.id == 'setattr' \
                        and len(n.args) >= 2:
                    if isinstance(n.args[1], ast.Constant):
                        name = n.args[1].value
                    else:
                        # dynamic key: every string key of dict literals in the function is a candidate
                        for d in ast.walk(fi.node):
                            if isinstance(d, ast.Dict):
                                for k in d.keys:
                                    if isinstance(k, ast.Constant) and isinstance(k.value, str):
                                        out.setdefault(k.value, set()).add((fi.qual, None))
                if name is not None:
                    # innermost enclosing function owns the store
                    owner = self.prog.enclosing_function(fi.module, n) or fi
                    recv_cls = None
                    if isinstance(n, ast.Attribute) and isinstance(n.value, ast.Name) and n.value.id == 'self':
                        o = owner
                        while o is not None and o.cls is None:
                            o = o.parent
                        recv_cls = o.cls.qual if o is not None else None
                    out.setdefault(name, set()).add((owner.qual, recv_cls))
        self._stores = out
        return out

    def build(self, ci):
        if ci.qual in self.cache:
            return self.cache[ci.qual]
        self.cache[ci.qual] = ({}, set())
        init = ci.find_method('__init__')
        if init is None:
            return self.cache[ci.qual]
        I = Interp(self.prog, max_depth=self.max_depth, expansions=None)
        selft = sym('self')
        params = set(init.all_params()[1:])
        a = init.node.args
        if a.vararg:
            params.add('*' + a.vararg.arg)
        if a.kwarg:
            params.add('**' + a.kwarg.arg)

        PURE = {'round', 'floor', 'ceil', 'trunc', 'abs', 'floordiv', 'mod', 'min', 'max', 'minimum',
                'maximum', 'pow', 'array', 'firwin', 'log', 'exp', 'cos', 'sin', 'len'}

        def mentions_param(v):
            """True when v is NOT a pure expression over direct self attributes (=> base attribute)."""
            seen = set()

            def ok_term(t):
                return all(ok_atom(a) for a in t.atoms())

            def ok_arg(x):
                if isinstance(x, Term):
                    return ok_term(x)
                if isinstance(x, tuple):
                    return all(ok_arg(y) for y in x)
                return True

            def ok_atom(a):
                if a.key in seen:
                    return True
                seen.add(a.key)
                k = a.kind
                if k == 'attr':
                    return a.args[0].key == selft.key
                if k in ('num', 'bool', 'none', 'str'):
                    return True
                if k == 'call':
                    return a.args[0] in PURE and ok_arg(a.args[1]) and ok_arg(a.args[2])
                if k in ('seq', 'ite', 'cmp', 'not', 'and', 'tuple', 'list', 'poly', 'pow'):
                    return all(ok_arg(x) for x in a.args)
                return False
            return not ok_term(v)
        sticky = set()
        for _pass in range(6):
            out = set()
            I = Interp(self.prog, max_depth=self.max_depth, expansions=None)
            # pass 0 grows the sticky set on the fly; later passes shrink it to the direct ones
            I.expansion_mode = (selft, mentions_param, sticky, out, _pass == 0)
            I.run(init, self_term=selft, self_cls=ci)
            if _pass > 0 and out == sticky:
                break
            sticky = set(out)
        base = set(out)
        closure = {init.qual}
        for e in I.events:
            if e.kind == 'call' and e.data.get('resolved') is not None:
                closure.add(e.data['resolved'].qual)
        stores = self._store_sites()
        derived = {}
        for (ok, name), v in I.heap.items():
            if ok != selft.key or name in base:
                continue
            family = {c.qual for c in ci.mro()} | {c.qual for c in self.prog.classes.values() if ci in c.mro()}
            if any(q not in closure and (rc is None or rc in family) for q, rc in stores.get(name, set())):
                continue
            if mentions_param(v):
                continue
            derived[name] = v
        self.cache[ci.qual] = (derived, base)
        return self.cache[ci.qual]

    def get(self, ci, name, base_term):
        for c in ci.mro():
            derived, _ = self.build(c)
            if name in derived:
                v = derived[name]
                if base_term.key == sym('self').key:
                    return v
                bt = base_term

                def fn(a):
                    if a.kind == 'sym' and a.args[0] == 'self':
                        return bt
                    return None
                return T.subst(v, fn)
        return None
