"""Derived-attribute expansion (E4): the abstract value of `self.X` at the exit of
`__init__`, expressed over base attributes, for attributes that no other function stores."""
import ast

from . import terms as T
from .terms import Term, Atom, sym
from .sva import Interp
from .model import PKG


class ClassExpansions:
    def __init__(self, prog, max_depth=4):
        self.prog = prog
        self.max_depth = max_depth
        self.cache = {}       # class qual -> (derived dict name->Term, base set)
        self._stores = None

    def _param_class(self, fi, pname):
        cache = self.__dict__.setdefault('_param_classes', {})
        if (fi.qual, pname) in cache:
            return cache[(fi.qual, pname)]
        from .argbind import resolve_callee
        found = set()
        ok = True
        n_sites = 0
        for caller in self.prog.functions.values():
            if isinstance(caller.node, ast.Lambda):
                continue
            for c in ast.walk(caller.node):
                if not isinstance(c, ast.Call):
                    continue
                rc = resolve_callee(self.prog, caller, c)
                if rc is None or rc[0] is not fi:
                    continue
                if (self.prog.enclosing_function(caller.module, c) or caller) is not caller:
                    continue
                n_sites += 1
                formals = fi.params()
                arg = None
                for kw in c.keywords:
                    if kw.arg == pname:
                        arg = kw.value
                if arg is None and pname in formals and formals.index(pname) < len(c.args):
                    arg = c.args[formals.index(pname)]
                o = caller
                while o is not None and o.cls is None:
                    o = o.parent
                if isinstance(arg, ast.Name) and arg.id == 'self' and o is not None and o.cls is not None:
                    found.add(o.cls.qual)
                else:
                    ok = False
        res = found.pop() if (ok and n_sites and len(found) == 1) else None
        cache[(fi.qual, pname)] = res
        return res

    def _store_sites(self):
        """attr name -> set of function quals that store it (by attribute name, any receiver)."""
        if self._stores is not None:
            return self._stores
        out = {}
        for fi in self.prog.functions.values():
            if isinstance(fi.node, ast.Lambda):
                continue
            for n in ast.walk(fi.node):
                name = None
                if isinstance(n, ast.Attribute) and isinstance(n.ctx, (ast.Store, ast.Del)):
                    name = n.attr
                elif isinstance(n, ast.Call) and isinstance(n.func, ast.Name) and n.func.id == 'setattr' \
                        and len(n.args) >= 2:
                    if isinstance(n.args[1], ast.Constant):
                        name = n.args[1].value
                    else:
                        # dynamic key: every string key of dict literals in the function is a candidate
                        for d in ast.walk(fi.node):
                            if isinstance(d, ast.Dict):
                                for k in d.keys:
                                    if isinstance(k, ast.Constant) and isinstance(k.value, str):
                                        out.setdefault(k.value, set()).add((fi.qual, None))
                if name is not None:
                    # innermost enclosing function owns the store
                    owner = self.prog.enclosing_function(fi.module, n) or fi
                    recv_cls = None
                    if isinstance(n, ast.Attribute) and isinstance(n.value, ast.Name) and n.value.id == 'self':
                        o = owner
                        while o is not None and o.cls is None:
                            o = o.parent
                        recv_cls = o.cls.qual if o is not None else None
                    if recv_cls is None and isinstance(n, ast.Attribute) and isinstance(n.value, ast.Name) and owner.cls is None \
                            and owner.parent is None and n.value.id in owner.params():
                        # a plain function storing an attribute of one of its parameters (a helper extracted from a method):
                        # the receiver's class is the class of the methods that hand their own `self` to that parameter,
                        # when every call site in the package does
                        recv_cls = self._param_class(owner, n.value.id)
                    out.setdefault(name, set()).add((owner.qual, recv_cls))
        self._stores = out
        return out

    def build(self, ci):
        if ci.qual in self.cache:
            return self.cache[ci.qual]
        self.cache[ci.qual] = ({}, set())
        init = ci.find_method('__init__')
        if init is None:
            return self.cache[ci.qual]
        I = Interp(self.prog, max_depth=self.max_depth, expansions=None)
        selft = sym('self')
        params = set(init.all_params()[1:])
        a = init.node.args
        if a.vararg:
            params.add('*' + a.vararg.arg)
        if a.kwarg:
            params.add('**' + a.kwarg.arg)

        PURE = {'round', 'floor', 'ceil', 'trunc', 'abs', 'floordiv', 'mod', 'min', 'max', 'minimum',
                'maximum', 'pow', 'array', 'firwin', 'log', 'exp', 'cos', 'sin', 'len'}

        def mentions_param(v):
            """True when v is NOT a pure expression over direct self attributes (=> base attribute)."""
            seen = set()

            def ok_term(t):
                return all(ok_atom(a) for a in t.atoms())

            def ok_arg(x):
                if isinstance(x, Term):
                    return ok_term(x)
                if isinstance(x, tuple):
                    return all(ok_arg(y) for y in x)
                return True

            def ok_atom(a):
                if a.key in seen:
                    return True
                seen.add(a.key)
                k = a.kind
                if k == 'attr':
                    return a.args[0].key == selft.key
                if k in ('num', 'bool', 'none', 'str'):
                    return True
                if k == 'call':
                    return a.args[0] in PURE and ok_arg(a.args[1]) and ok_arg(a.args[2])
                if k in ('seq', 'ite', 'cmp', 'not', 'and', 'tuple', 'list', 'poly', 'pow'):
                    return all(ok_arg(x) for x in a.args)
                return False
            return not ok_term(v)
        sticky = set()
        for _pass in range(6):
            out = set()
            I = Interp(self.prog, max_depth=self.max_depth, expansions=None)
            # pass 0 grows the sticky set on the fly; later passes shrink it to the direct ones
            I.expansion_mode = (selft, mentions_param, sticky, out, _pass == 0)
            I.run(init, self_term=selft, self_cls=ci)
            if _pass > 0 and out == sticky:
                break
            sticky = set(out)
        base = set(out)
        closure = {init.qual}
        for e in I.events:
            if e.kind == 'call' and e.data.get('resolved') is not None:
                closure.add(e.data['resolved'].qual)
        stores = self._store_sites()
        derived = {}
        for (ok, name), v in I.heap.items():
            if ok != selft.key or name in base:
                continue
            family = {c.qual for c in ci.mro()} | {c.qual for c in self.prog.classes.values() if ci in c.mro()}
            if any(q not in closure and (rc is None or rc in family) for q, rc in stores.get(name, set())):
                continue
            if mentions_param(v):
                continue
            derived[name] = v
        self.cache[ci.qual] = (derived, base)
        return self.cache[ci.qual]

    def get(self, ci, name, base_term):
        for c in ci.mro():
            derived, _ = self.build(c)
            if name in derived:
                v = derived[name]
                if base_term.key == sym('self').key:
                    return v
                bt = base_term

                def fn(a):
                    if a.kind == 'sym' and a.args[0] == 'self':
                        return bt
                    return None
                return T.subst(v, fn)
        return None


def list_invariant(prog, ci, attr):
    """Class invariant for a list attribute: the value `self.<attr>` has at the exit of __init__, rewritten over the
    object's own attributes (objects constructed in __init__ are named by the attribute that holds them, constructor
    parameters by the attribute that copies them).  Returned only when it is an invariant: neither <attr> nor any
    attribute the expression mentions is assigned or mutated in place by any function other than __init__ (name-based
    sweep over the whole package).  None otherwise.  Cached per program."""
    from .sva import MUTATING_METHODS
    cache = prog.__dict__.setdefault('_list_invariants', {}) if hasattr(prog, '__dict__') else {}
    key = (ci.qual, attr)
    if key in cache:
        return cache[key]
    cache[key] = None
    init = ci.methods.get('__init__')
    if init is None:
        return None
    I = Interp(prog, max_depth=4, expansions=None)
    try:
        r = I.run(init, self_term=sym('self'), self_cls=ci)
    except Exception:
        return None
    selfk = sym('self').key
    v = r.heap.get((selfk, attr))
    if v is None:
        return None
    by_new, by_param = {}, {}
    for (ok, name), val in r.heap.items():
        if ok != selfk or name == attr:
            continue
        a = val.single_atom()
        if a is not None and a.kind == 'ite' and a.args[2].single_atom() is not None and a.args[2].single_atom().kind == 'undef':
            a = a.args[1].single_atom()       # attribute that exists only in some configurations
        if a is not None and a.kind == 'new':
            by_new.setdefault(a.key, name)
        elif a is not None and a.kind == 'sym' and a.args[0] in init.all_params():
            by_param.setdefault(a.key, name)
    used = set()

    def fn(a):
        if a.key in by_new:
            used.add(by_new[a.key])
            return T.mk_attr(sym('self'), by_new[a.key])
        if a.key in by_param:
            used.add(by_param[a.key])
            return T.mk_attr(sym('self'), by_param[a.key])
        return None
    w = T.subst(v, fn)
    for a in T.all_atoms(w).values():
        if a.kind == 'new' or (a.kind == 'sym' and a.args[0] != 'self') or a.kind in ('loopvar', 'after', 'undef', 'comp'):
            return None
    family = {c.qual for c in ci.mro()} | {c.qual for c in prog.classes.values() if ci in c.mro()}

    def foreign_self(fi, n):
        """`self.<name>` inside a method of an unrelated class is another object's attribute"""
        recv = n.value if isinstance(n, ast.Attribute) else None
        o = fi
        while o is not None and o.cls is None:
            o = o.parent
        return isinstance(recv, ast.Name) and recv.id == 'self' and o is not None and o.cls.qual not in family
    for name in used | {attr}:
        for fi in prog.functions.values():
            if isinstance(fi.node, ast.Lambda) or fi is init:
                continue
            for n in ast.walk(fi.node):
                if isinstance(n, ast.Attribute) and n.attr == name and foreign_self(fi, n):
                    continue
                if isinstance(n, ast.Attribute) and n.attr == name:
                    if isinstance(n.ctx, (ast.Store, ast.Del)):
                        return None
                if isinstance(n, ast.Subscript) and isinstance(n.ctx, (ast.Store, ast.Del)) and \
                        isinstance(n.value, ast.Attribute) and n.value.attr == name and name == attr:
                    return None
                if isinstance(n, ast.Call) and isinstance(n.func, ast.Attribute) and n.func.attr in MUTATING_METHODS and \
                        isinstance(n.func.value, ast.Attribute) and n.func.value.attr == name and name == attr:
                    return None
                if isinstance(n, ast.Call) and isinstance(n.func, ast.Name) and n.func.id == 'setattr' and fi.module is ci.module:
                    if len(n.args) >= 2 and not (isinstance(n.args[1], ast.Constant) and n.args[1].value != name):
                        return None
    cache[key] = w
    return w


def list_invariant_for(prog, base_cls, attr):
    """(class, invariant) for `<obj>.<attr>`: the object's class when known, else the only class of the package whose
    constructor establishes such an invariant (duck typing, as for uniquely named methods)"""
    if base_cls is not None:
        for c in base_cls.mro():
            w = list_invariant(prog, c, attr)
            if w is not None:
                return c, w
        return None, None
    hits = [(c, list_invariant(prog, c, attr)) for c in prog.classes.values() if '__init__' in c.methods]
    hits = [(c, w) for c, w in hits if w is not None]
    return hits[0] if len(hits) == 1 else (None, None)


def elem_invariants(prog, ci, list_attr):
    """For a list attribute that __init__ fills with objects it constructs (`self.antennas.append(Antenna(..., num_pols=
    self.num_pols, ...))`): {attribute of the element: its value over the OWNER's attributes}, for the element attributes
    that the element's constructor copies from an argument which is itself an attribute (or constructor parameter copied
    into an attribute) of the owner, and that no function other than a constructor ever stores.  Cached per program."""
    from .sva import MUTATING_METHODS
    cache = prog.__dict__.setdefault('_elem_invariants', {})
    key = (ci.qual, list_attr)
    if key in cache:
        return cache[key]
    cache[key] = {}
    init = ci.methods.get('__init__')
    if init is None:
        return {}
    I = Interp(prog, max_depth=4, expansions=None)
    try:
        r = I.run(init, self_term=sym('self'), self_cls=ci)
    except Exception:
        return {}
    selfk = sym('self').key
    apps = [e for e in I.events if e.kind == 'call' and e.data.get('name') == '.append' and e.data.get('recv') is not None
            and e.data['recv'].single_atom() is not None and e.data['recv'].single_atom().kind in ('attr', 'loopvar', 'list', 'call')
            and isinstance(e.data.get('recv_node'), ast.Attribute) and e.data['recv_node'].attr == list_attr
            and isinstance(e.data['recv_node'].value, ast.Name) and e.data['recv_node'].value.id == 'self']
    if len(apps) != 1:
        return {}
    e = apps[0]
    obj = e.data['args'][1]
    oa = obj.single_atom()
    if oa is None or oa.kind != 'new':
        return {}
    heap = e.loops[-1].get('heap_exit') if e.loops else r.heap
    if heap is None:
        return {}
    # the list is assigned/mutated nowhere else
    for fi in prog.functions.values():
        if isinstance(fi.node, ast.Lambda) or fi is init:
            continue
        for n in ast.walk(fi.node):
            if isinstance(n, ast.Attribute) and n.attr == list_attr and isinstance(n.ctx, (ast.Store, ast.Del)):
                return {}
            if isinstance(n, ast.Subscript) and isinstance(n.ctx, (ast.Store, ast.Del)) and isinstance(n.value, ast.Attribute) \
                    and n.value.attr == list_attr:
                return {}
            if isinstance(n, ast.Call) and isinstance(n.func, ast.Attribute) and n.func.attr in MUTATING_METHODS and \
                    isinstance(n.func.value, ast.Attribute) and n.func.value.attr == list_attr:
                return {}
    by_param = {}
    for (ok, name), val in r.heap.items():
        if ok == selfk:
            a = val.single_atom()
            if a is not None and a.kind == 'sym' and a.args[0] in init.all_params():
                by_param.setdefault(a.key, name)

    def stored_outside_constructors(name):
        for fi in prog.functions.values():
            if isinstance(fi.node, ast.Lambda) or fi.name == '__init__':
                continue
            for n in ast.walk(fi.node):
                if isinstance(n, ast.Attribute) and n.attr == name and isinstance(n.ctx, (ast.Store, ast.Del)):
                    return True
                if isinstance(n, ast.Call) and isinstance(n.func, ast.Name) and n.func.id == 'setattr' and len(n.args) >= 2:
                    if isinstance(n.args[1], ast.Constant):
                        if n.args[1].value == name:
                            return True
                    elif fi.module is ci.module:
                        return True           # a dynamic attribute name in the owner's module could be this one
        return False
    out = {}
    for (ok, name), val in heap.items():
        if ok != obj.key:
            continue

        def fn(a):
            if a.key in by_param:
                return T.mk_attr(sym('self'), by_param[a.key])
            return None
        w = T.subst(val, fn)
        good = True
        used = set()
        for a in T.all_atoms(w).values():
            if a.kind in ('new', 'loopvar', 'after', 'undef', 'idx', 'elem', 'key', 'comp', 'call') or (
                    a.kind == 'sym' and a.args[0] != 'self'):
                good = False
            if a.kind == 'attr' and a.args[0].key == selfk:
                used.add(a.args[1])
        if not good or not used:
            continue
        if stored_outside_constructors(name) or any(stored_outside_constructors(u) for u in used):
            continue
        out[name] = w
    cache[key] = out
    return out


def elem_invariant_for(prog, owner_cls, list_attr, name):
    if owner_cls is not None:
        for c in owner_cls.mro():
            w = elem_invariants(prog, c, list_attr).get(name)
            if w is not None:
                return w
        return None
    hits = [elem_invariants(prog, c, list_attr).get(name) for c in prog.classes.values() if '__init__' in c.methods]
    hits = [w for w in hits if w is not None]
    return hits[0] if len(hits) == 1 else None
