"""Rule context: obligations, findings, known-findings matching, evidence and replay files."""
import ast
import json
import os
import time
import hashlib

from . import terms as T
from .terms import Term, Atom, sym, pretty
from .model import Program, AnalysisError, FuncInfo, stmt_text, PKG
from .sva import Interp, Frame_
from .expansions import ClassExpansions

VERIF = os.path.dirname(os.path.dirname(os.path.abspath(__file__)))


class Obligation:
    def __init__(self, prop, clause, rule, name, site, verdict, detail=None, construct=None, line=None):
        self.prop, self.clause, self.rule, self.name = prop, clause, rule, name
        self.site = site            # 'file::function'
        self.verdict = verdict      # HOLDS | VIOLATED | UNDECIDED
        self.detail = detail or {}
        self.construct = construct or ''
        self.line = line

    def key(self):
        f, _, fn = self.site.partition('::')
        return (self.prop, self.rule, f, fn, self.construct)

    def to_json(self):
        return {'property': self.prop, 'clause': self.clause, 'rule': self.rule, 'obligation': self.name,
                'site': self.site, 'line': self.line, 'verdict': self.verdict, 'construct': self.construct,
                'detail': self.detail}


class Context:
    def __init__(self, prop, tier='quick', repo=None, seed=0, prog=None):
        self.prop = prop
        self.tier = tier
        self.seed = seed
        self.prog = prog or Program(repo)
        self.population = self.prog.check_population()
        self.exp = ClassExpansions(self.prog)
        self.obligations = []
        self.notes = []
        self.functions_analysed = set()
        self.calls_seen = 0
        self.calls_resolved = 0
        self.unresolved = []
        self.counts = {}
        self.clause = ''
        self.t0 = time.time()
        if getattr(self.prog, 'renamed', None):
            self.notes.append('private functions recognised as renamed (same scope, same body) and analysed under their baseline '
                              'names: ' + ', '.join(f'{v} <- {c}' for v, c in sorted(self.prog.renamed.items())))

    # ------------------------------------------------------------------ engine access
    def interp(self, types=None, no_inline=(), max_depth=None, expand=True, opaque_attrs=(), sticky_attrs=()):
        if max_depth is None:
            max_depth = 3 if self.tier == 'quick' else 5
        return Interp(self.prog, max_depth=max_depth, types=types, no_inline=no_inline,
                      expansions=self.exp if expand else None, opaque_attrs=opaque_attrs,
                      sticky_attrs=sticky_attrs)

    def func(self, short):
        fi = self.prog.func(short)
        self.functions_analysed.add(fi.short)
        return fi

    def run(self, short_or_fi, args=None, types=None, no_inline=(), max_depth=None, expand=True,
            self_name='self', typed_params=None, opaque_attrs=(), heap=None, sticky_attrs=()):
        """Symbolically execute a function; returns (Result, Interp)."""
        fi = short_or_fi if isinstance(short_or_fi, FuncInfo) else self.func(short_or_fi)
        self.functions_analysed.add(fi.short)
        I = self.interp(types=types, no_inline=no_inline, max_depth=max_depth, expand=expand,
                        opaque_attrs=opaque_attrs, sticky_attrs=sticky_attrs)
        for pname, cshort in (typed_params or {}).items():
            I.types[sym(pname).key] = self.prog.cls(cshort)
        for k, v in (heap or {}).items():
            I.heap[(sym(self_name).key, k)] = v if isinstance(v, Term) else self.spec(fi, v)
        r = I.run(fi, args=args)
        self._account(I)
        return r, I

    def _account(self, I):
        for e in I.events:
            if e.kind == 'call':
                self.calls_seen += 1
                if e.data.get('resolved') is not None or e.data.get('external'):
                    self.calls_resolved += 1
                if e.func is not None:
                    self.functions_analysed.add(e.func.short)
        self.unresolved.extend(I.unresolved)

    def spec(self, fi, expr, env=None, types=None, I=None, typed_params=None):
        """Evaluate a spec formula (Python expression text) in the scope of function `fi` with the
        same evaluator, so derived attributes expand identically on both sides."""
        fi = fi if isinstance(fi, FuncInfo) else self.func(fi)
        I = I or self.interp(types=types)
        for pname, cshort in (typed_params or {}).items():
            I.types[sym(pname).key] = self.prog.cls(cshort)
        e = {}
        params = fi.all_params()
        self_term = None
        self_cls = None
        if fi.cls is not None and fi.parent is None and not fi.is_staticmethod and params:
            if not fi.is_classmethod:
                self_term = sym(params[0])
                self_cls = fi.cls
                I.types.setdefault(self_term.key, fi.cls)
            e[params[0]] = sym(params[0])
            params = params[1:]
        for p in params:
            e[p] = sym(p)
        e.update(env or {})
        fr = Frame_(fi, e, self_term, self_cls, 0, 0, ())
        node = ast.parse(expr.strip(), mode='eval').body
        rec, I.record = I.record, False
        I.frames.append(fr)
        try:
            return I.ev(node, fr)
        finally:
            I.frames.pop()
            I.record = rec

    def apply(self, I, fi, callee, args, kwargs=()):
        """Apply a callable value (closure / function term) to argument terms inside interpreter I."""
        fr = Frame_(fi, {}, None, None, len(I.pc), 0, ())
        node = ast.parse('f()', mode='eval').body
        I.frames.append(fr)
        try:
            return I._call_value(callee, list(args), list(kwargs), node, fr)
        finally:
            I.frames.pop()

    def ref_func(self, like_fi, src):
        """A reference transcription (spec) as a function living in the same module/class as like_fi."""
        tree = ast.parse(src.strip('\n') if not src.startswith(' ') else __import__('textwrap').dedent(src))
        node = tree.body[0]
        fi = FuncInfo(like_fi.module, like_fi.qual + '#spec', node, cls=like_fi.cls, parent=like_fi.parent)
        fi.decorators = list(like_fi.decorators)
        fi.is_classmethod, fi.is_staticmethod, fi.is_property = like_fi.is_classmethod, like_fi.is_staticmethod, like_fi.is_property
        return fi

    def run_ref(self, like_fi, src, **kw):
        fi = self.ref_func(like_fi, src)
        I = self.interp(types=kw.pop('types', None), no_inline=kw.pop('no_inline', ()), max_depth=kw.pop('max_depth', None),
                        expand=kw.pop('expand', True), sticky_attrs=kw.pop('sticky_attrs', ()))
        for pname, cshort in (kw.pop('typed_params', None) or {}).items():
            I.types[sym(pname).key] = self.prog.cls(cshort)
        for k, v in (kw.pop('heap', None) or {}).items():
            I.heap[(sym('self').key, k)] = v if isinstance(v, Term) else self.spec(like_fi, v)
        r = I.run(fi, args=kw.pop('args', None))
        return r, I

    # ------------------------------------------------------------------ obligations
    def site(self, fi):
        if isinstance(fi, FuncInfo):
            return f'{fi.file}::{fi.short}'
        return str(fi)

    def ob(self, rule, name, fi, holds, detail=None, node=None, construct=None):
        """Record one obligation.  holds: True / False / None (undecided, never alarms)."""
        verdict = 'HOLDS' if holds is True else 'VIOLATED' if holds is False else 'UNDECIDED'
        if construct is None and node is not None:
            construct = stmt_text(node)
        o = Obligation(self.prop, self.clause, rule, name, self.site(fi), verdict, detail, construct,
                       getattr(node, 'lineno', None))
        self.obligations.append(o)
        self.counts[rule] = self.counts.get(rule, 0) + 1
        return o

    def formula(self, rule, name, fi, code, spec, node=None, construct=None):
        """FORMULA / AGREE obligation: three-valued comparison of two terms."""
        v, why = T.compare(code, spec)
        detail = {'code': pretty(code)[:1500], 'spec': pretty(spec)[:1500]}
        if why:
            detail['difference'] = why
        holds = True if v == T.EQUAL else False if v == T.DIFFERENT else None
        return self.ob(rule, name, fi, holds, detail, node, construct)

    def require(self, cond, msg):
        if not cond:
            raise AnalysisError(msg)

    def note(self, msg):
        self.notes.append(msg)

    # ------------------------------------------------------------------ event helpers
    @staticmethod
    def stores(I, target=None, name=None, func=None):
        out = []
        for e in I.events:
            if e.kind != 'store':
                continue
            if target and e.data.get('target') != target:
                continue
            if name is not None and e.data.get('name') != name:
                continue
            if func is not None and e.owner != func:
                continue
            out.append(e)
        return out

    @staticmethod
    def calls(I, name=None, suffix=None, func=None):
        out = []
        for e in I.events:
            if e.kind != 'call':
                continue
            n = e.data.get('name', '')
            if name is not None and n != name:
                continue
            if suffix is not None and not n.endswith(suffix):
                continue
            if func is not None and e.owner != func:
                continue
            out.append(e)
        return out


# ---------------------------------------------------------------------- known findings
def load_known():
    p = os.path.join(VERIF, 'known_findings.json')
    if not os.path.exists(p):
        return []
    with open(p) as f:
        return json.load(f).get('findings', [])


def match_known(o, known):
    for k in known:
        if k.get('status') != 'known':
            continue
        if k['property'] != o.prop or k['rule'] != o.rule:
            continue
        if k.get('function') and k['function'] != o.site.partition('::')[2]:
            continue
        if k.get('construct') and k['construct'] != o.construct:
            continue
        return k
    return None


def finish(ctx, out=print):
    """Print the verdict, write evidence and replay files; return the exit code."""
    known = load_known()
    wall = time.time() - ctx.t0
    violations = []
    known_hits = []
    for o in ctx.obligations:
        if o.verdict == 'VIOLATED':
            k = match_known(o, known)
            if k is not None:
                known_hits.append((o, k))
            else:
                violations.append(o)
    holds = [o for o in ctx.obligations if o.verdict == 'HOLDS']
    undec = [o for o in ctx.obligations if o.verdict == 'UNDECIDED']
    out(f'[{ctx.prop}] tier={ctx.tier} analysed {len(ctx.functions_analysed)} functions, '
        f'{ctx.calls_seen} call events ({ctx.calls_resolved} resolved/summarised), '
        f'{len(ctx.obligations)} obligations: {len(holds)} hold, {len(undec)} undecided, '
        f'{len(violations) + len(known_hits)} violated; population {ctx.population}')
    for n in ctx.notes:
        out(f'NOTE: {n}')
    for o in undec:
        out(f'UNDECIDED: {o.rule} {o.name} at {o.site} ({o.construct[:80]})')
        if os.environ.get('VSTATIC_DEBUG') and o.detail:
            out('    ' + json.dumps(o.detail, default=str)[:3000])
    for o, k in known_hits:
        out(f'KNOWN-FINDING: property={ctx.prop} {o.rule} {o.site.partition("::")[2]}: {k.get("what", o.name)}')
    rdir = os.path.join(VERIF, 'replays')
    os.makedirs(rdir, exist_ok=True)
    for i, o in enumerate(violations):
        h = hashlib.sha1(repr(o.key()).encode()).hexdigest()[:10]
        path = os.path.join(rdir, f'{ctx.prop}_{o.rule}_{h}.json')
        with open(path, 'w') as f:
            json.dump(o.to_json(), f, indent=1, default=str)
        out(f'  {o.rule} [{o.clause}] {o.name}: {o.site}' + (f':{o.line}' if o.line else '') +
            f' -- {o.construct[:120]}')
        d = o.detail
        if 'difference' in d and isinstance(d['difference'], dict):
            out(f'    code: {d["difference"].get("code", "")[:300]}')
            out(f'    spec: {d["difference"].get("spec", "")[:300]}')
            if d['difference'].get('case'):
                out(f'    case: {d["difference"]["case"]}')
        elif d:
            out('    ' + json.dumps(d, default=str)[:400])
        out(f'VIOLATION property={ctx.prop} replay={path}')
    ev = {
        'property_id': ctx.prop, 'tier': ctx.tier, 'seed': int(ctx.seed), 'level': 'other',
        'coverage': {
            'explanation': ('static analysis of the current /repo source: structural clauses of the property '
                            'decided by symbolic value analysis (exact rational normal forms), event-trace '
                            'path conditions and effect summaries; no setigen code executed'),
            'obligations': len(ctx.obligations), 'discharged': len(holds),
            'undecided': len(undec), 'violated_unlisted': len(violations), 'known_findings': len(known_hits),
            'functions_analysed': sorted(ctx.functions_analysed),
            'call_events': ctx.calls_seen, 'call_events_resolved': ctx.calls_resolved,
            'rule_instances': ctx.counts, 'population': ctx.population,
            'evaluations': len(ctx.obligations),
            'distinct_nontrivial': len({o.key() + (o.name,) for o in ctx.obligations}),
            'rule': 'one evaluation = one obligation (rule instance at a code site); distinct by '
                    '(rule, site, construct, obligation name)',
            'samples': [o.to_json() for o in (ctx.obligations[:6] + undec[:3] + violations[:3])],
            'notes': ctx.notes, 'exhaustive': False,
        },
        'assumptions': [
            'arithmetic over exact rationals/reals, not IEEE floats',
            'numpy/scipy/astropy/blimpy functions behave as their documented signatures (summary tables)',
            'astropy Quantities are modelled as plain numbers in base units',
            'duck-typed receivers resolved by declared parameter classes or unique method names',
        ],
        'wall_s': round(wall, 3), 'violations': len(violations),
    }
    edir = os.path.join(VERIF, 'evidence')
    os.makedirs(edir, exist_ok=True)
    with open(os.path.join(edir, f'{ctx.prop}.json'), 'w') as f:
        json.dump(ev, f, indent=1, default=str)
    if violations:
        return 1
    out(f'[{ctx.prop}] OK ({len(holds)} obligations hold' +
        (f', {len(known_hits)} known findings' if known_hits else '') + f') in {wall:.2f}s')
    return 0
